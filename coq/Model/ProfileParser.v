(* The profile parser (internal/parser/profile: parser.go, expressionparser.go, constraintsparser.go) from the
   YAML tree to the validations the generator receives, for the declarative constraints the formula model of
   Rules.v covers.  Order of the checks as coded: propertyConstraints, rego, regoModule, and, or, not, if;
   inside a property: minCount maxCount exactCount minLength maxLength exactLength pattern in uniqueValues
   containsAll containsSome lessThanProperty lessThanOrEqualsToProperty equalsToProperty disjointWithProperty
   (moreThan..) atLeast atMost (exactly) minInclusive minExclusive maxInclusive maxExclusive datatype nested
   (rego regoModule).  A construct outside the formula model makes the model answer [Unsupported]. *)
From Coq Require Import DecimalString DecimalN.
From ACV Require Import Base.Strs Model.Graph Model.Peg Model.PathGrammar Model.PathSem Model.Dnf Model.Rules Model.Report Model.Engine Model.Yaml.
Local Open Scope string_scope.

Inductive presult (X : Type) := POk (x : X) | PError | PUnsupported.
Arguments POk {X}. Arguments PError {X}. Arguments PUnsupported {X}.
Definition pbind {X Y} (r : presult X) (k : X -> presult Y) : presult Y :=
  match r with POk x => k x | PError => PError | PUnsupported => PUnsupported end.

(* scalars as the accessors of internal/parser/yaml see them *)
Definition y_string (y : ynode) : option string := match y with YScalar "!!str" v => Some v | _ => None end.
Definition y_nat (y : ynode) : option nat :=
  match y with
  | YScalar "!!int" v => match NilEmpty.uint_of_string v with Some d => Some (N.to_nat (N.of_uint d)) | None => None end
  | _ => None
  end.
Definition y_bool (y : ynode) : option bool :=
  match y with YScalar "!!bool" "true" => Some true | YScalar "!!bool" "false" => Some false | _ => None end.
(* stringifyNode: string, int, (float), bool *)
Definition stringify (y : ynode) : option string :=
  match y with
  | YScalar "!!str" v => Some v
  | YScalar "!!int" v => Some v
  | YScalar "!!bool" v => Some v
  | _ => None
  end.

(* expansion of every predicate of a path *)
Section WithContext.
Variable ctx : list (string * string).

Fixpoint expand_path (p : path) : option path :=
  match p with
  | Pred iri inv tr =>
      if String.eqb iri "@type" then Some p
      else match expand_compact ctx iri with Some e => Some (Pred e inv tr) | None => None end
  | And l => option_map And ((fix go (l : list path) : option (list path) :=
                match l with [] => Some [] | x :: r => match expand_path x, go r with Some a, Some b => Some (a :: b) | _, _ => None end end) l)
  | Or l => option_map Or ((fix go (l : list path) : option (list path) :=
                match l with [] => Some [] | x :: r => match expand_path x, go r with Some a, Some b => Some (a :: b) | _, _ => None end end) l)
  end.
(* annotations (custom domain properties, path.go traverseCustomProperty) are outside the path model *)
Fixpoint uses_custom (p : path) : bool :=
  match p with
  | Pred iri _ _ => sprefix "http://a.ml/vocabularies/api-extension#" iri
  | And l | Or l => (fix go (l : list path) : bool := match l with [] => false | x :: r => uses_custom x || go r end) l
  end.
Definition parse_property_path (s : string) : presult path :=
  match parse_path s with
  | Accept p => match expand_path p with
                | Some e => if uses_custom e then PUnsupported else POk e
                | None => PError                                                  (* unknown prefix: the generator panics *)
                end
  | _ => PError
  end.

(* patterns the atom model can read: ^lit$ | ^lit | lit$ | lit, lit without regular-expression operators *)
Definition plain_char (c : ascii) : bool :=
  negb (existsb (Ascii.eqb c) ["^"; "$"; "."; "*"; "+"; "?"; "("; ")"; "["; "]"; "{"; "}"; "|"; "\"]%char).
Fixpoint all_plain (s : string) : bool := match s with EmptyString => true | String c r => plain_char c && all_plain r end.
Definition strip_last (s : string) : string := srev (match srev s with String _ r => r | EmptyString => EmptyString end).
Definition last_is_dollar (s : string) : bool := match srev s with String "$" _ => true | _ => false end.
Definition classify_pattern (s : string) : option pat :=
  match s with
  | String "^" r => if last_is_dollar r then (if all_plain (strip_last r) then Some (PatExact (strip_last r)) else None)
                    else if all_plain r then Some (PatPrefix r) else None
  | _ => if last_is_dollar s then (if all_plain (strip_last s) then Some (PatSuffix (strip_last s)) else None)
         else if all_plain s then Some (PatContains s) else None
  end.

Fixpoint map_p {X Y} (f : X -> presult Y) (l : list X) : presult (list Y) :=
  match l with
  | [] => POk []
  | x :: r => pbind (f x) (fun a => pbind (map_p f r) (fun b => POk (a :: b)))
  end.
Definition opt_p {X} (o : option X) : presult X := match o with Some x => POk x | None => PError end.
Definition present (k : string) (y : ynode) : bool := match yget k y with Some _ => true | None => false end.

Definition count_atom (k : string) (q : cq) (len : bool) (p : path) (c : ynode) : list form :=
  match yget k c with
  | Some v => match y_nat v with
              | Some n => [FAtom (if len then ALength q p n else ACount q p n)]
              | None => []            (* `err == nil` guards: a non-integer value is silently ignored *)
              end
  | None => []
  end.

(* The body of parseExpressionValue / ParsePropertyConstraint, over the parser applied to sub-expressions ([rec]):
   one definition per group of checks, in the order of the code. *)
Section Body.
Variable rec : ynode -> presult form.

Definition pc_unsupported (c : ynode) : bool :=
  present "uniqueValues" c || present "moreThanProperty" c || present "moreThanOrEqualsToProperty" c
  || present "exactly" c || present "rego" c || present "regoModule" c.
Definition pc_counts (p : path) (c : ynode) : list form :=
  (count_atom "minCount" CMin false p c ++ count_atom "maxCount" CMax false p c ++ count_atom "exactCount" CExact false p c
   ++ count_atom "minLength" CMin true p c ++ count_atom "maxLength" CMax true p c ++ count_atom "exactLength" CExact true p c)%list.
Definition pc_pattern (p : path) (c : ynode) : presult (list form) :=
  match yget "pattern" c with
  | Some v => match y_string v with
              | Some s => match classify_pattern s with Some pt => POk [FAtom (APattern p pt)] | None => PUnsupported end
              | None => POk []
              end
  | None => POk []
  end.
Definition pc_scalar_set (c : ynode) (k : string) (mk : list string -> atom) : presult (list form) :=
  match yget k c with
  | Some (YSeq items) => pbind (map_p (fun i => opt_p (stringify i)) items) (fun l => POk [FAtom (mk l)])
  | _ => POk []
  end.
Definition pc_cmp (p : path) (c : ynode) (k : string) (o : cop) : presult (list form) :=
  match yget k c with
  | Some v => match y_string v with
              | Some s => pbind (parse_property_path s) (fun q => POk [FAtom (ACmp o p q)])
              | None => POk []
              end
  | None => POk []
  end.
Definition pc_qualified (p : path) (c : ynode) (k : string) (mk : nat -> quant) : presult (list form) :=
  match yget k c with
  | Some qn =>
      match yget "count" qn with
      | Some cn => match y_nat cn with
                   | Some n => match yget "validation" qn with
                               | Some (YMap _ as v) => pbind (rec v) (fun f => POk [FNested (mk n) p f])
                               | _ => PError
                               end
                   | None => PError
                   end
      | None => PError
      end
  | None => POk []
  end.
Definition pc_num (p : path) (c : ynode) (k : string) (o : nop) : presult (list form) :=
  match yget k c with
  | Some v => match y_nat v with Some n => POk [FAtom (ANum o p (Z.of_nat n))] | None => PUnsupported end   (* floats, negatives: not modelled *)
  | None => POk []
  end.
Definition pc_datatype (p : path) (c : ynode) : presult (list form) :=
  match yget "datatype" c with
  | Some v => match y_string v with
              | Some s => match expand_compact ctx s with Some e => POk [FAtom (ADatatype p e)] | None => PError end
              | None => PError
              end
  | None => POk []
  end.
Definition pc_nested (p : path) (c : ynode) : presult (list form) :=
  match yget "nested" c with
  | Some (YMap _ as v) => pbind (rec v) (fun f => POk [FNested QAll p f])
  | _ => POk []
  end.

Definition parse_pc (entry : string * ynode) : presult (list form) :=
  let (key, c) := entry in
  pbind (parse_property_path key) (fun p =>
  match c with
  | YMap _ =>
    if pc_unsupported c then PUnsupported else
    pbind (pc_pattern p c) (fun pattern =>
    pbind (pc_scalar_set c "in" (AIn p)) (fun fin =>
    pbind (pc_scalar_set c "containsAll" (AContainsAll p)) (fun fall =>
    pbind (pc_scalar_set c "containsSome" (AContainsSome p)) (fun fsome =>
    pbind (pc_cmp p c "lessThanProperty" PLt) (fun c1 => pbind (pc_cmp p c "lessThanOrEqualsToProperty" PLe) (fun c2 =>
    pbind (pc_cmp p c "equalsToProperty" PEq) (fun c3 => pbind (pc_cmp p c "disjointWithProperty" PNe) (fun c4 =>
    pbind (pc_qualified p c "atLeast" QAtLeast) (fun q1 => pbind (pc_qualified p c "atMost" QAtMost) (fun q2 =>
    pbind (pc_num p c "minInclusive" OGe) (fun n1 => pbind (pc_num p c "minExclusive" OGt) (fun n2 =>
    pbind (pc_num p c "maxInclusive" OLe) (fun n3 => pbind (pc_num p c "maxExclusive" OLt) (fun n4 =>
    pbind (pc_datatype p c) (fun dt =>
    pbind (pc_nested p c) (fun nested =>
    POk (pc_counts p c ++ pattern ++ fin ++ fall ++ fsome ++ c1 ++ c2 ++ c3 ++ c4 ++ q1 ++ q2 ++ n1 ++ n2 ++ n3 ++ n4 ++ dt ++ nested)%list
    ))))))))))))))))
  | _ => PError               (* PropertyConstraint must be a map *)
  end).

Definition operands (items : list ynode) : presult (list form) :=
  map_p (fun i => match i with YMap _ => rec i | _ => PError end) items.

Definition expr_body (y : ynode) : presult form :=
  match yget "propertyConstraints" y with
  | Some (YMap entries) => pbind (map_p parse_pc entries) (fun ls => POk (FAnd (List.concat ls)))
  | Some _ => POk (FAnd [])     (* GetMapKeys of a non-map yields no key *)
  | None =>
    if present "rego" y || present "regoModule" y then PUnsupported else
    match yget "and" y with
    | Some (YSeq items) => pbind (operands items) (fun l => POk (FAnd l))
    | Some _ => PError
    | None =>
      match yget "or" y with
      | Some (YSeq items) => pbind (operands items) (fun l => POk (FOr l))
      | Some _ => PError
      | None =>
        match yget "not" y with
        | Some (YMap _ as n) => pbind (rec n) (fun f => POk (FNot f))
        | Some _ => PError
        | None =>
          match yget "if" y with
          | Some i =>
              match yget "then" y with
              | Some t => pbind (rec i) (fun fi => pbind (rec t) (fun ft =>
                          match yget "else" y with
                          | Some e => pbind (rec e) (fun fe => POk (FIf fi ft (Some fe)))
                          | None => POk (FIf fi ft None)
                          end))
              | None => PError
              end
          | None => PError
          end
        end
      end
    end
  end.
End Body.

Fixpoint parse_expr (fuel : nat) (y : ynode) {struct fuel} : presult form :=
  match fuel with
  | O => PUnsupported
  | S fuel => expr_body (parse_expr fuel) y
  end.
End WithContext.

Fixpoint ysize (y : ynode) : nat :=
  match y with
  | YScalar _ _ => 1
  | YMap l => S ((fix go (l : list (string * ynode)) := match l with [] => 0 | (_, v) :: r => ysize v + go r end) l)
  | YSeq l => S ((fix go (l : list ynode) := match l with [] => 0 | v :: r => ysize v + go r end) l)
  end.

(* Parse + parseValidationLevel: the profile the generator receives *)
Definition prefixes_of (doc : ynode) : presult (list (string * string)) :=
  match yget "prefixes" doc with
  | Some (YMap l) => map_p (fun kv => match y_string (snd kv) with Some v => POk (fst kv, v) | None => PError end) l
  | Some _ => PError
  | None => POk []
  end.

Definition level_names (doc : ynode) (k : string) : list string :=
  match yget k doc with
  | Some (YSeq items) => flat_map (fun i => match y_string i with Some s => [s] | None => [] end) items
  | _ => []
  end.

Definition parse_profile (defaults : list (string * string)) (doc : ynode) : presult profile :=
  match doc with
  | YMap _ =>
    match yget "profile" doc with
    | Some n => match y_string n with
      | Some name =>
        if present "rego_extensions" doc then PUnsupported else
        pbind (prefixes_of doc) (fun pfx =>
        let ctx := context defaults pfx in
        match yget "validations" doc with
        | Some (YMap vals as vm) =>
          let listed := (map (fun s => (Violation, s)) (level_names doc "violation") ++ map (fun s => (Warning, s)) (level_names doc "warning")
                         ++ map (fun s => (Info, s)) (level_names doc "info"))%list in
          (* only the validations some level lists are parsed *)
          let used := filter (fun kv : string * ynode => existsb (fun ln => String.eqb (snd ln) (fst kv)) listed) vals in
          pbind (map_p (fun kv : string * ynode =>
                   let (vname, v) := kv in
                   match yget "targetClass" v with
                   | Some tc => match y_string tc with
                     | Some cls => match expand_compact ctx cls with
                       | Some ecls =>
                         let msg := match yget "message" v with Some m => match y_string m with Some s => s | None => "Validation error" end | None => "Validation error" end in
                         pbind (parse_expr ctx (ysize v) v) (fun f =>
                           POk {| v_name := vname; v_class := ecls; v_msg := msg; v_form := f |})
                       | None => PError
                       end
                     | None => PError
                     end
                   | None => PError
                   end) used) (fun defs =>
          POk {| p_name := name; p_listed := filter (fun ln => existsb (fun d => String.eqb (v_name d) (snd ln)) defs) listed; p_defs := defs |})
        | _ => PError
        end)
      | None => PError
      end
    | None => PError
    end
  | _ => PError
  end.

(* the verdict of a profile text on a graph, from the YAML tree: per level, the (validation, focus, message template) triples *)
Definition verdict (defaults : list (string * string)) (doc : ynode) (g : graph) : presult (list (level * string * string * string)) :=
  pbind (parse_profile defaults doc) (fun p =>
    if forallb (fun d => wf_form (v_form d)) (p_defs p) then
      POk (flat_map (fun l : level => map (fun r : Report.result => (l, r_name r, r_focus r, r_msg r)) (level_results g p l)) (Violation :: Warning :: Info :: nil))
    else PUnsupported).
