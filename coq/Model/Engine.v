(* From a parsed profile to what the evaluated policy returns (the three result lists BuildReport reads):
   parseValidationLevel resolves the names of each level list against `validations` (unknown names are
   skipped, a name listed twice or under two levels is kept each time); the rule head of a validation is
   its lower-cased level; its results are the target nodes the formula reports (Rules.validation_results). *)
From ACV Require Import Base.Strs Model.Graph Model.PathGrammar Model.PathSem Model.Dnf Model.Rules Model.Report.

Record vdef := { v_name : string; v_class : string; v_msg : string; v_form : form }.
Record profile := { p_name : string; p_listed : list (level * string); p_defs : list vdef }.

Definition level_eqb (a b : level) : bool :=
  match a, b with Violation, Violation | Warning, Warning | Info, Info => true | _, _ => false end.
Definition find_def (p : profile) (name : string) : option vdef :=
  List.find (fun d => String.eqb (v_name d) name) (p_defs p).

(* the part of a result tree every result has: its trace (one typed entry per constraint of the fired branch) *)
Definition unit_tree : et := ET [(TIdx 0, ET [(TKey "traceValue", ET [])])].

Definition result_eqb (a b : result) : bool := String.eqb (r_name a) (r_name b) && String.eqb (r_focus a) (r_focus b).

(* the rules of one level build a SET of result objects: a validation listed twice under one level
   contributes its results once *)
Definition level_results (g : graph) (p : profile) (l : level) : list result :=
  dedup result_eqb (flat_map (fun ln => if level_eqb l (fst ln) then
                        match find_def p (snd ln) with
                        | Some d => map (fun n => {| r_name := v_name d; r_focus := nid n; r_msg := v_msg d; r_tree := unit_tree |})
                                        (validation_results g (v_class d) (v_form d))
                        | None => []
                        end
                      else []) (p_listed p)).

Definition engine_of (g : graph) (p : profile) : engine_out :=
  {| e_profile := p_name p; e_violation := level_results g p Violation;
     e_warning := level_results g p Warning; e_info := level_results g p Info |}.

Definition validate (g : graph) (p : profile) (c : cfg) : report := build_report (engine_of g p) c.
