(* The event channel as the code uses it: an UNBUFFERED channel; dispatchEvent is one blocking send (regenerated skeleton
   `if eventChan != nil { send }`).  A call is a program of work steps and sends; the listener is a policy that decides, from
   the events it has taken so far, whether it takes the next one.  The call advances through work on its own and through a
   send only when the listener takes the event; otherwise it stays inside that send.
   This is the ground for two things: events are neither lost nor reordered however slow the listener is (C11), and the way
   the correspondence runs steer concurrent calls (harness/props/sched.go): a listener that stops taking events after event W
   leaves the call inside its NEXT send, with exactly the work before that send done and none of the work after it. *)
From ACV Require Import Base.Strs.
Local Open Scope list_scope.

Section Rendezvous.
Variables E L : Type.              (* events, labels of work steps *)
Variable E_eqb : E -> E -> bool.

Inductive pstep := PWork (l : L) | PSend (e : E).
Definition policy := list E -> bool.          (* events taken so far -> take the next one? *)

Record conf := { todo : list pstep; did : list L; taken : list E }.

(* run until the program ends or the call is inside a send the listener does not take *)
Fixpoint run (pol : policy) (prog : list pstep) (did : list L) (taken : list E) : conf :=
  match prog with
  | [] => {| todo := []; did := did; taken := taken |}
  | PWork l :: r => run pol r (did ++ [l]) taken
  | PSend e :: r => if pol taken then run pol r did (taken ++ [e]) else {| todo := prog; did := did; taken := taken |}
  end.

Definition works (prog : list pstep) : list L := flat_map (fun s => match s with PWork l => [l] | PSend _ => [] end) prog.
Definition sends (prog : list pstep) : list E := flat_map (fun s => match s with PSend e => [e] | PWork _ => [] end) prog.

(* the two policies the runs use *)
Definition always : policy := fun _ => true.
Definition last_is (w : E) (taken : list E) : bool :=
  match rev taken with e :: _ => E_eqb e w | [] => false end.
Definition stop_after (w : E) : policy := fun taken => negb (last_is w taken).
Definition take_none : policy := fun _ => false.
End Rendezvous.
Arguments PWork {E L}. Arguments PSend {E L}.
Arguments run {E L}. Arguments works {E L}. Arguments sends {E L}. Arguments todo {E L}. Arguments did {E L}. Arguments taken {E L}.
Arguments always {E}. Arguments stop_after {E}. Arguments take_none {E}. Arguments last_is {E}.
