(* The identifiers the translator invents (parser/profile/vargenerator.go, generator/nested.go,
   generator/expression.go): quantified variables x y z p ... o, then X<n>; their collections <v>s; the names
   derived from them; the numbered names gen_<hint>_<n>; the per-branch declarations _result_<i>, msg_var_<i>,
   message_vars, message and the head variable. *)
From Coq Require Import DecimalString DecimalNat.
From ACV Require Import Base.Strs Model.Report.
Local Open Scope string_scope.

Definition letters : list string :=
  ["x"; "y"; "z"; "p"; "q"; "r"; "s"; "t"; "u"; "v"; "w"; "b"; "c"; "d"; "e"; "f"; "g"; "h"; "i"; "j"; "k"; "l"; "m"; "o"].
(* GenExpressionVar: the n-th quantified variable of a validation *)
Definition var_name (n : nat) : string :=
  match nth_error letters n with Some l => l | None => "X" ++ dec n end.
Definition plural (v : string) : string := v ++ "s".                      (* nested.go *)
Definition genvar (hint : string) (k : nat) : string := "gen_" ++ hint ++ "_" ++ dec k.   (* Genvar *)
(* expression.go *)
Definition error_acc (child : string) (i : nat) : string := child ++ "_errorAcc" ++ dec i.
Definition branch_var (pl : string) (i : nat) : string := pl ++ "_br_" ++ dec i.
Definition result_var (i : nat) : string := "_result_" ++ dec i.
Definition msg_var (i : nat) : string := "msg_var_" ++ dec i.

(* the variables declared with := in one rule body (or one comprehension body) built by wrapBranch for a branch
   of k constraints and a message with m placeholders; [head] is "matches" at the top level and
   <plural>_br_<i>_inner_error inside a nested constraint *)
Definition declared (k m : nat) (head : string) : list string :=
  map result_var (seq 0 k) ++ map msg_var (seq 0 m) ++ (if Nat.eqb m 0 then [] else ["message_vars"]) ++ ["message"; head].

(* fixed variable names that the snippets of a nested constraint bind in the same body as the quantified
   variables (expression.go wrapNestedRegoResult: `{ nodeId | n = ..[_]; nodeId = n[0] }`, `[ node | n = ..[_]; node = n[1] ]`)
   and the ones of every rule body (`nodes`, `message`, `message_vars`, `matches`) *)
Definition helper_vars : list string := ["n"; "nodeId"; "node"; "nodes"; "message"; "message_vars"; "matches"].

Definition is_keyword (kws : list string) (s : string) : bool := in_strs s kws.
Fixpoint has_char (p : ascii -> bool) (s : string) : bool :=
  match s with EmptyString => false | String c r => p c || has_char p r end.
Definition is_upper (c : ascii) : bool := Nat.leb 65 (nat_of_ascii c) && Nat.leb (nat_of_ascii c) 90.

(* the statements wrapBranch appends to a rule body, in order: (variable bound, variables of this list it reads).
   The trace(...) / object.get(...) right-hand sides read only variables of the constraint snippets and the rule head. *)
Definition tail_stmts (k m : nat) (head : string) : list (string * list string) :=
  map (fun i => (result_var i, [])) (seq 0 k)
  ++ map (fun i => (msg_var i, [])) (seq 0 m)
  ++ (if Nat.eqb m 0 then [] else [("message_vars", map msg_var (seq 0 m))])
  ++ [("message", if Nat.eqb m 0 then [] else ["message_vars"]); (head, "message" :: map result_var (seq 0 k))].
(* safety in the engine's sense, for these statements: every variable read has been bound by an earlier statement *)
Fixpoint safe_from (env : list string) (l : list (string * list string)) : bool :=
  match l with
  | [] => true
  | (d, us) :: r => forallb (fun u => in_strs u env) us && safe_from (d :: env) r
  end.
