(* The JSON-LD fragment of C05: a document = optional @context (prefix -> namespace, @base), a list of node
   objects (directly, in an array, or under a top-level @graph: the same list), each with an @id (absolute,
   compact prefix:local, or relative to @base), @type (one or several, absolute or compact) and properties
   (absolute or compact) whose values are strings, integers, booleans, references {"@id": ..} or embedded node
   objects, singly or in arrays, possibly repeated.  [denote] = the triples the document states;
   [to_graph] = the flattened, indexed form the policy evaluates (input["@ids"]): one node per subject, one
   entry per predicate, each value once.  @vocab is modelled for bare terms in predicate and @type position
   (a term defined by the context takes precedence).  Type coercion, @container, @reverse, @list, language maps,
   remote contexts, blank nodes and general IRI resolution are outside the fragment. *)
From ACV Require Import Base.Strs Model.Graph.
Local Open Scope string_scope.

Inductive sid := IAbs (iri : string) | ICompact (prefix local : string) | IRel (suffix : string) | IVocab (term : string).
Inductive sval :=
| SStr (s : string) | SInt (z : Z) | SBool (b : bool) | SRef (i : sid) | SEmbed (n : snode)
with snode := SNode (id : sid) (types : list sid) (props : list (sid * list sval)).

Record doc := { d_ctx : list (string * string); d_base : string; d_nodes : list snode }.

Definition expand (ctx : list (string * string)) (base : string) (i : sid) : string :=
  match i with
  | IAbs iri => iri
  | ICompact p l => match assoc p ctx with Some ns => ns ++ l | None => p ++ ":" ++ l end
  | IRel s => base ++ s
  (* a bare term in predicate / @type position: a term the context defines wins over @vocab (kept in the
     context list under the key "@vocab") *)
  | IVocab l => match assoc l ctx with
                | Some ns => ns
                | None => match assoc "@vocab" ctx with Some v => v ++ l | None => l end
                end
  end.

Definition triple := (string * string * value)%type.
Definition node_id (n : snode) : sid := match n with SNode i _ _ => i end.

Section Denote.
Variables (ctx : list (string * string)) (base : string).
Notation ex := (expand ctx base).

Fixpoint denote_node (n : snode) : list triple :=
  match n with
  | SNode i ts ps =>
    let s := ex i in
    (map (fun t => (s, "@type", VStr (ex t))) ts ++
    (fix props (l : list (sid * list sval)) : list triple :=
       match l with
       | [] => []
       | (p, vs) :: r =>
         (fix vals (l : list sval) : list triple :=
            match l with
            | [] => []
            | v :: r' =>
              (match v with
               | SStr x => [(s, ex p, VStr x)]
               | SInt z => [(s, ex p, VInt z)]
               | SBool b => [(s, ex p, VBool b)]
               | SRef j => [(s, ex p, VRef (ex j))]
               | SEmbed m => (s, ex p, VRef (ex (node_id m))) :: denote_node m
               end ++ vals r')%list
            end) vs ++ props r
       end) ps)%list
  end.
End Denote.

Definition denote (d : doc) : list triple := flat_map (denote_node (d_ctx d) (d_base d)) (d_nodes d).

(* ------------------------------------------------------------------ triples -> the indexed graph *)
Definition subj (t : triple) : string := fst (fst t).
Definition pred (t : triple) : string := snd (fst t).
Definition obj (t : triple) : value := snd t.

Definition values_of (ts : list triple) (s p : string) : list value :=
  dedup value_eqb (map obj (filter (fun t => String.eqb (subj t) s && String.eqb (pred t) p) ts)).
Definition preds_of (ts : list triple) (s : string) : list string :=
  dedup String.eqb (map pred (filter (fun t => String.eqb (subj t) s) ts)).
Definition node_of (ts : list triple) (s : string) : node :=
  {| nid := s; nprops := map (fun p => (p, values_of ts s p)) (preds_of ts s) |}.
Definition to_graph (ts : list triple) : graph := map (node_of ts) (dedup String.eqb (map subj ts)).

Definition flatten (d : doc) : graph := to_graph (denote d).
