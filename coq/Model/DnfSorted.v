(* Dnf.disp with the operands of `and` / `or` put in some order first (GenerateAnd / GenerateOr call sort.Sort on the body):
   [srt] is any function on operand lists; Proofs/DnfSortedProofs.v shows that whenever it only permutes, the reported nodes are
   those of Dnf.disp, i.e. the literal-level reading of the rule. *)
From Coq Require Import List Bool Arith Lia.
Import ListNotations.
From ACV Require Import Model.Dnf.
Set Implicit Arguments.

Section DnfSorted.
Variables (A P : Type).
Variable srt : list (rule A P) -> list (rule A P).

Fixpoint dispS (fuel:nat) (r:rule A P) {struct fuel} : option (list (gres A P)) :=
  match fuel with
  | O => None
  | S fuel =>
    match r with
    | RAtom n a => Some [GSimple (SAtom n a)]
    | RAnd false l => option_map (fun rs => map (fun g => GBranch (as_branch g)) (concat rs)) (all_with (dispS fuel) (srt l))
    | RAnd true l => dispS fuel (ROr false (map (@negate A P) l))
    | ROr false l => option_map (fun rs => map (@GBranch A P) (expand (simples rs) (branchsets rs))) (all_with (dispS fuel) (srt l))
    | ROr true l => dispS fuel (RAnd false (map (@negate A P) l))
    | RCond n i t e =>
        match dispS fuel (ROr n [negate i; t]) with
        | None => None
        | Some a =>
            match e with
            | None => Some a
            | Some e' => match dispS fuel (ROr n [i; e']) with None => None | Some b => Some (a ++ b) end
            end
        end
    | RNested n q p r => option_map (fun rs => [GBranch [SNested n q p (map (@as_branch A P) rs)]]) (dispS fuel r)
    end
  end.
End DnfSorted.
