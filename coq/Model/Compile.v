(* The code generator as ONE function from the parsed profile to the text of the Rego module
   (internal/generator: generator.go Generate, expression.go generateTopLevel / generateNested / wrapNestedRegoResult /
   wrapTopLevelRegoResult / wrapBranch, dispatcher.go, and.go, or.go, conditional.go, nested.go, the constraint generators,
   path.go through Model/PathGen.v; internal/parser/profile: the String() methods that order the operands of `and` / `or`,
   Negate(), Genvar).

   What is threaded through the generation is the value of the process-wide name counter: [gen fuel r c] answers the results
   of Dispatch on rule r when c names have been handed out, and the value of the counter afterwards.  Every generator draws its
   numbers in the order of the Go code (count: value variable, then path rule; pattern / datatype / numeric: path rule, then value
   variable; in: value set, checked value, path rule; containsAll / containsSome: checked values, value set, path rule; property
   pairs: path rule, path rule; uniqueValues: path rule, array, duplicates; rego: path rule (also for the empty path), node
   variable (only with a path), result variable, focus variable (only when the code mentions $traceNode); nested: path rule, then
   the body).

   Operand order: sort.Sort over RuleSlice, Less = String() < String() (bytes); for at most 12 operands Go sorts by insertion
   (stable), beyond that the result is the same whenever the keys are distinct - [sort_rules] is the insertion sort.

   The correspondence run (C07) compares [module_text] byte for byte with generator.Generate on every profile of the modelled
   language. *)
From ACV Require Import Base.Strs Model.Graph Model.PathGrammar Model.PathSem Model.Dnf Model.Report Model.Names Model.Escape Model.Yaml Model.PathGen Model.RuleGen.
Local Open Scope list_scope.
Local Open Scope string_scope.
Local Notation "a +++ b" := (@List.app string a b) (at level 60, right associativity).

(* ------------------------------------------------------------------ strings *)
Fixpoint has_prefix (p s : string) : bool :=
  match p, s with
  | EmptyString, _ => true
  | String a p', String b s' => Ascii.eqb a b && has_prefix p' s'
  | _, _ => false
  end.
Fixpoint contains (p s : string) : bool :=
  has_prefix p s || match s with EmptyString => false | String _ s' => contains p s' end.
(* strings.ReplaceAll for a non-empty [old]: leftmost, non-overlapping *)
Fixpoint replace_from (old new : string) (skip : nat) (s : string) : string :=
  match s with
  | EmptyString => EmptyString
  | String c r =>
      match skip with
      | S k => replace_from old new k r
      | O => if has_prefix old s then new ++ replace_from old new (String.length old - 1) r
             else String c (replace_from old new 0 r)
      end
  end.
Definition replace_all (old new s : string) : string := replace_from old new 0 s.
(* strings.Split(s, "\n") *)
Fixpoint split_nl_acc (s cur : string) : list string :=
  match s with
  | EmptyString => [srev cur]
  | String c r => if Ascii.eqb c (Ascii.ascii_of_nat 10) then srev cur :: split_nl_acc r "" else split_nl_acc r (String c cur)
  end.
Definition split_nl (s : string) : list string := split_nl_acc s "".
(* profile.Indent *)
Definition indent (s : string) : string := join nl (map (fun l => "  " ++ l) (split_nl s)).

(* ------------------------------------------------------------------ misc.IriExpander.Expand *)
Definition in_range (lo hi : nat) (c : ascii) : bool := Nat.leb lo (nat_of_ascii c) && Nat.leb (nat_of_ascii c) hi.
Definition prefix_char (c : ascii) : bool := in_range 97 122 c || in_range 65 90 c || in_range 48 57 c || Ascii.eqb c "-" || Ascii.eqb c "_".
Definition suffix_char (c : ascii) : bool :=
  prefix_char c || existsb (Ascii.eqb c) ["."; "("; "\"; "/"; ")"]%char.
Fixpoint all_chars (p : ascii -> bool) (s : string) : bool :=
  match s with EmptyString => true | String c r => p c && all_chars p r end.
(* ^[a-zA-Z-0-9\-_]+\.[\.(\\/)a-zA-Z-0-9\-_]+$ : the prefix has no dot, so the split is at the first dot *)
Definition compact_parts (s : string) : option (string * string) :=
  match split_dot s with
  | Some (p, l) =>
      if negb (String.eqb p "") && negb (String.eqb l "") && all_chars prefix_char p && all_chars suffix_char l
      then Some (p, l) else None
  | None => None
  end.
(* Some e: no error; None: Expand returns an error (and, as its first result, the text unchanged) *)
Definition expand_iri (ctx : list (string * string)) (s : string) : option string :=
  match compact_parts s with
  | Some (p, l) => match assoc p ctx with Some ns => Some (ns ++ replace_all "\/" "/" l) | None => None end
  | None => if has_prefix "@" s then Some s else None
  end.
Definition expand_or_self (ctx : list (string * string)) (s : string) : string :=
  match expand_iri ctx s with Some e => e | None => s end.

(* PropertyPath.Trace over an expanded path: parts joined by " / " and " | ", composite parts in parentheses, "^" after an
   inverse step *)
Fixpoint trace_text (p : path) : string :=
  let part := fun (x : path) => match x with Pred _ _ _ => trace_text x | _ => "(" ++ trace_text x ++ ")" end in
  match p with
  | Pred iri inv _ => iri ++ (if inv then "^" else "")
  | And l => join " / " (map part l)
  | Or l => join " | " (map part l)
  end.

(* ------------------------------------------------------------------ path rules as text (aggregateResultsIntoSet / IntoArray) *)
Fixpoint clause_lines (first : bool) (clauses : list (list string)) (header : string) : list string :=
  match clauses with
  | [] => []
  | c :: r => (if first then header else "} {") :: map (fun l => "  " ++ l) c ++ clause_lines false r header
  end.
Definition path_rule_text (array : bool) (name : string) (clauses : list (list string)) : string :=
  match clauses with
  | [] => ""
  | _ => join nl (clause_lines true clauses (if array then name ++ " = [ nodes | " else name ++ "[nodes] {")
                  ++ [if array then "]" else "}"])
  end.
(* the rule of a path from variable v; None is the empty path of a top-level `rego` (no clause, no text) *)
Definition path_rule (p : option path) (fetch array : bool) (v name : string) : string :=
  match p with
  | Some p => path_rule_text array name (path_rule_lines p fetch v)
  | None => ""
  end.

(* ------------------------------------------------------------------ rules *)
Inductive ckind :=
| KCount (name cond : string) (per_value : bool) (k : nat)
| KPattern (pat : string)
| KIn (vals : list string)
| KContains (all : bool) (vals : list string)
| KNum (name cid op ktext : string)                       (* name: minInclusive ..; cid: minimumInclusive ..; ktext: %d of the argument *)
| KCmp (name op src2 : string) (p2 : path)
| KDatatype (written expanded : string)
| KUnique (arg : bool)
| KRego (code msg : string).
(* the variable, the path as written (one line), the expanded path (None: the empty path) *)
Record catom := { ca_var : string; ca_src : string; ca_path : option path; ca_kind : ckind }.
Record cnest := { cn_parent : string; cn_child : string; cn_src : string; cn_path : path }.
Definition crule := rule catom cnest.

(* ---- String(): the sort keys *)
Definition neg_mark (b : bool) : string := if b then "¬" else "".
Definition atom_key (neg : bool) (a : catom) : string :=
  let v := ca_var a in
  let src := ca_src a in
  match ca_kind a with
  | KCount name _ _ k => neg_mark neg ++ name ++ "(" ++ v ++ ",'" ++ src ++ "'," ++ dec k ++ ")"
  | KPattern pat => neg_mark neg ++ "pattern(" ++ v ++ ",'" ++ src ++ "','" ++ pat ++ "')"
  | KIn vals => neg_mark neg ++ "in(" ++ v ++ ",'" ++ src ++ "'," ++ join "," vals ++ ")"
  | KContains all vals => neg_mark neg ++ (if all then "containsAll" else "containsSome") ++ "(" ++ v ++ ",'" ++ src ++ "'," ++ join "," vals ++ ")"
  | KNum name _ _ ktext => neg_mark neg ++ name ++ "(" ++ v ++ ",'" ++ src ++ "'," ++ ktext ++ ")"
  | KCmp _ op src2 _ => neg_mark neg ++ "(Property(" ++ v ++ ",'" ++ src ++ "') " ++ op ++ " Property(" ++ v ++ ",'" ++ src2 ++ "'))"
  | KDatatype written _ => neg_mark neg ++ "Datatype(" ++ v ++ ",'" ++ src ++ "','" ++ written ++ "')"
  | KUnique arg => neg_mark neg ++ "uniqueValues(" ++ v ++ ",'" ++ src ++ "','" ++ bool_text arg ++ "')"
  | KRego _ msg => neg_mark neg ++ "rego(" ++ v ++ ",'" ++ src ++ "','" ++ msg ++ "')"
  end.
Definition quant_text (q : quant) : string :=           (* VariableCardinality.String() *)
  match q with QAll => "" | QAtLeast k => ">= " ++ dec k | QAtMost k => "<= " ++ dec k end.
Definition child_text (q : quant) (child : string) : string :=   (* Variable.String() *)
  match q with QAll => "∀" ++ child | _ => "∃" ++ child ++ ";" ++ quant_text q end.

Fixpoint insert_key {X} (k : string) (x : X) (l : list (string * X)) : list (string * X) :=
  match l with
  | [] => [(k, x)]
  | (k', y) :: r => if String.ltb k k' then (k, x) :: (k', y) :: r else (k', y) :: insert_key k x r
  end.
Definition sort_keyed {X} (l : list (string * X)) : list (string * X) :=
  fold_left (fun acc kx => insert_key (fst kx) (snd kx) acc) l [].

Fixpoint rule_key (r : crule) : string :=
  match r with
  | RAtom neg a => atom_key neg a
  | RAnd neg l =>
      let keys := map fst (sort_keyed (map (fun x => (rule_key x, tt)) l)) in
      match keys with
      | [] => neg_mark neg
      | [k] => neg_mark neg ++ k
      | _ => neg_mark neg ++ "(" ++ nl ++ join (nl ++ "∧" ++ nl) (map indent keys) ++ nl ++ ")"
      end
  | ROr neg l =>
      let keys := map fst (sort_keyed (map (fun x => (rule_key x, tt)) l)) in
      match keys with
      | [] => neg_mark neg
      | [k] => neg_mark neg ++ k
      | _ => neg_mark neg ++ "(" ++ nl ++ join (nl ++ "∨" ++ nl) (map indent keys) ++ nl ++ ")"
      end
  | RCond neg i t None =>
      neg_mark neg ++ "(" ++ nl ++ indent (rule_key i) ++ nl ++ "→" ++ nl ++ indent (rule_key t) ++ nl ++ ")"
  | RCond neg i t (Some e) =>
      neg_mark neg ++ "(" ++ nl ++ "(" ++ nl ++ indent (rule_key i) ++ nl ++ "→" ++ nl ++ indent (rule_key t) ++ nl ++ ")" ++ nl ++ "∧" ++ nl
      ++ "(" ++ nl ++ "¬" ++ indent (rule_key i) ++ nl ++ "→" ++ nl ++ indent (rule_key e) ++ nl ++ ")" ++ nl ++ ")"
  | RNested neg q p body =>
      child_text q (cn_child p) ++ "[Nested(" ++ cn_parent p ++ "," ++ child_text q (cn_child p) ++ "," ++ cn_src p ++ ")] : " ++ neg_mark neg
      ++ nl ++ "  (" ++ nl ++ "  " ++ indent (rule_key body) ++ nl ++ "  )"
  end.
Definition sort_rules (l : list crule) : list crule := map snd (sort_keyed (map (fun x => (rule_key x, x)) l)).

(* ------------------------------------------------------------------ the reading of a rule body: which variable each statement
   binds and which it needs, with the local scope of comprehensions.  [Bind "" needs] is a test. *)
Inductive stmt :=
| Bind (v : string) (needs : list string)
| Compr (v : string) (body : list stmt) (out : list string).   (* v = [ .. out .. | body ]: the body's variables are local *)
Definition bound (s : stmt) : string := match s with Bind v _ | Compr v _ _ => v end.
Definition all_in (us env : list string) : bool := forallb (fun u => in_strs u env) us.
(* safe in the engine's sense: every variable a statement needs is bound by an earlier statement of an enclosing body *)
Fixpoint safe_in (s : stmt) (env : list string) {struct s} : bool :=
  match s with
  | Bind _ needs => all_in needs env
  | Compr _ body out =>
      (fix go (l : list stmt) (env : list string) {struct l} : bool :=
         match l with
         | [] => all_in out env
         | s' :: r => safe_in s' env && go r (bound s' :: env)
         end) body env
  end.
Fixpoint safe_list (env : list string) (l : list stmt) : bool :=
  match l with
  | [] => true
  | s :: r => safe_in s env && safe_list (bound s :: env) r
  end.
Definition flat_du (l : list (string * list string)) : list stmt := map (fun d => Bind (fst d) (snd d)) l.

(* ------------------------------------------------------------------ results *)
(* a SimpleRegoResult: the snippet (lines, constraint id, trace path, trace value), the trace node, the text of its path rules *)
(* [cs_origin] is not text: it remembers which rule the result was generated from (the abstract result of Dnf.disp), so that
   Proofs/CompileProofs.v can state what the branches of the text mean *)
Record csimple := { cs_snip : snippet; cs_node : string; cs_rules : list string; cs_origin : simple catom cnest;
                    cs_du : list stmt (* the reading of sn_lines *); cs_uses : list string (* what the trace value reads *) }.
Inductive tres := TSimple (s : csimple) | TBranch (b : list csimple).
Definition t_branch (t : tres) : list csimple := match t with TSimple s => [s] | TBranch b => b end.

Definition fresh (hint : string) (c : nat) : string * nat := (genvar hint (S c), S c).

(* json.Marshal of a string of printable ASCII: quote, backslash, and the three characters the encoder writes as \u00XX *)
Fixpoint json_chars (s : string) : string :=
  match s with
  | EmptyString => EmptyString
  | String c r =>
      (if Ascii.eqb c """" then "\""" else if Ascii.eqb c "\" then "\\"
       else if Ascii.eqb c "<" then "\u003c" else if Ascii.eqb c ">" then "\u003e" else if Ascii.eqb c "&" then "\u0026"
       else String c EmptyString) ++ json_chars r
  end.
Definition json_string (s : string) : string := """" ++ json_chars s ++ """".

Definition of_snippet (sn : snippet) (node : string) (rules : list string) (o : simple catom cnest) : csimple :=
  {| cs_snip := sn; cs_node := node; cs_rules := rules; cs_origin := o; cs_du := flat_du (sn_du sn); cs_uses := sn_value_uses sn |}.

(* one constraint: the SimpleRegoResult and the counter afterwards *)
Definition gen_atom (neg : bool) (a : catom) (c : nat) : csimple * nat :=
  let x := ca_var a in
  let src := ca_src a in
  let tp := match ca_path a with Some p => trace_text p | None => "" end in
  let set_rule := fun (name : string) => path_rule (ca_path a) false false x name in
  match ca_kind a with
  | KCount name cond per_value k =>
      let n1 := S c in
      let (rule, c2) := fresh "path_set_rule" n1 in
      (of_snippet (count_snippet x src rule n1 per_value neg cond k name tp) x [set_rule rule] (SAtom neg a), c2)
  | KPattern pat =>
      let (rule, c1) := fresh "path_set_rule" c in
      (of_snippet (pattern_snippet x src rule (S c1) neg (pattern_literal pat) (json_string pat) tp) x [set_rule rule] (SAtom neg a), S c1)
  | KDatatype _ dt =>
      let (rule, c1) := fresh "path_set_rule" c in
      (of_snippet (datatype_snippet x src rule (S c1) neg dt tp) x [set_rule rule] (SAtom neg a), S c1)
  | KNum _ cid op ktext =>
      let (rule, c1) := fresh "path_set_rule" c in
      (of_snippet (numeric_snippet x src rule (S c1) neg cid op ktext tp) x [set_rule rule] (SAtom neg a), S c1)
  | KIn vals =>
      let (rule, c3) := fresh "path_set_rule" (S (S c)) in
      (of_snippet (in_snippet x src rule (S c) (S (S c)) neg vals tp) x [set_rule rule] (SAtom neg a), c3)
  | KContains all vals =>
      let (rule, c3) := fresh "path_set_rule" (S (S c)) in
      (of_snippet (contains_snippet all x src rule (S c) (S (S c)) neg vals tp) x [set_rule rule] (SAtom neg a), c3)
  | KCmp name op src2 p2 =>
      let (ruleA, c1) := fresh "path_set_rule" c in
      let (ruleB, c2) := fresh "path_set_rule" c1 in
      (of_snippet (cmp_snippet x src ruleA src2 ruleB neg name op tp) x [set_rule ruleA; path_rule (Some p2) false false x ruleB] (SAtom neg a), c2)
  | KUnique arg =>
      let (rule, c1) := fresh "path_array_rule" c in
      let (arr, c2) := fresh "array_values" c1 in
      let (dup, c3) := fresh "duplicates" c2 in
      ({| cs_snip := {| sn_lines := ["#  querying path: " ++ src; arr ++ " = " ++ rule ++ " with data.sourceNode as " ++ x;
                                     nl ++ "  " ++ dup ++ " = { duplicate |" ++ nl ++ "    array_value = " ++ arr ++ "[_]" ++ nl
                                     ++ "    indices_for_value := [ idx | array_value == " ++ arr ++ "[idx]]" ++ nl
                                     ++ "    count(indices_for_value) > 1" ++ nl ++ "    duplicate = array_value" ++ nl ++ "  }" ++ nl;
                                     (if xorb arg neg then "" else "not ") ++ "count(" ++ dup ++ ") > 0"];
                        sn_du := [(arr, [x]); (dup, [arr]); ("", [dup])];
                        sn_id := "uniqueValues"; sn_path := tp; sn_value := """negated"":" ++ bool_text neg; sn_value_uses := [] |};
          cs_node := x; cs_rules := [path_rule (ca_path a) false true x rule]; cs_origin := SAtom neg a;
          cs_du := [Bind arr [x];
                    Compr dup [Bind "array_value" [arr]; Compr "indices_for_value" [Bind "idx" ["array_value"; arr]] ["idx"];
                               Bind "" ["indices_for_value"]; Bind "duplicate" ["array_value"]] ["duplicate"];
                    Bind "" [dup]];
          cs_uses := [] |}, c3)
  | KRego code _ =>
      let (rule, c1) := fresh "path_set_rule" c in
      let with_path := match ca_path a with Some _ => true | None => false end in
      let (chk, c2) := if with_path then fresh (rule ++ "_node") c1 else (x, c1) in
      let (res, c3) := fresh "rego_result" c2 in
      let text1 := replace_all "$node" chk (replace_all "$result" res code) in
      let uses_focus := contains "$traceNode" text1 in
      let (focus, c4) := if uses_focus then fresh "result_focus_node" c3 else (x, c3) in
      let text := if uses_focus then replace_all "$traceNode" focus text1 else text1 in
      ({| cs_snip := {| sn_lines := (if with_path then ["#  querying path: " ++ src; chk ++ "_array = " ++ rule ++ " with data.sourceNode as " ++ x;
                                                     chk ++ " = " ++ chk ++ "_array"] else [])
                                    ++ split_nl text ++ [res ++ (if neg then " == true" else " != true")];
                        sn_du := []; sn_id := "rego"; sn_path := tp; sn_value := """negated"":" ++ bool_text neg; sn_value_uses := [] |};
          cs_node := focus; cs_rules := [set_rule rule]; cs_origin := SAtom neg a; cs_du := []; cs_uses := [] |}, c4)
  end.

(* ---- wrapBranch *)
Definition trace_line_of (i : nat) (s : csimple) : string :=
  "  " ++ result_var i ++ " := trace(" ++ q (sn_id (cs_snip s)) ++ "," ++ q (sn_path (cs_snip s)) ++ "," ++ cs_node s ++ "," ++ trace_value_node (sn_value (cs_snip s)) ++ ")".
Definition is_rego (s : csimple) : bool := String.eqb (sn_id (cs_snip s)) "rego".
Definition simple_lines (s : csimple) : list string :=
  map (fun l => "  " ++ (if is_rego s && contains "$message" l then replace_all "$message" "message" l else l)) (sn_lines (cs_snip s)).
Definition sets_message (s : csimple) : bool := is_rego s && existsb (contains "$message") (sn_lines (cs_snip s)).
Fixpoint body_lines (i : nat) (branch : list csimple) : list string :=
  match branch with
  | [] => []
  | s :: r => simple_lines s ++ [trace_line_of i s] ++ body_lines (S i) r
  end.
(* [iris]: the placeholders of the message, expanded; [expr]: the message as pasted *)
Definition wrap_branch (name : string) (iris : list string) (expr : string) (branch : list csimple) (matches mapping : string) : list string :=
  body_lines 0 branch
  ++ (if existsb sets_message branch then [] else message_lines mapping iris expr)
  ++ ["  " ++ matches ++ " := error(" ++ q (escape name) ++ "," ++ mapping ++ ", message ,[" ++ join "," (map result_var (seq 0 (List.length branch))) ++ "])"].

(* the reading of the lines of wrap_branch (for branches without hand-written Rego): the constraints, each followed by its trace
   binding; the message; the error binding *)
Fixpoint body_du (i : nat) (branch : list csimple) : list stmt :=
  match branch with
  | [] => []
  | s :: r => (cs_du s ++ [Bind (result_var i) (cs_node s :: cs_uses s)] ++ body_du (S i) r)%list
  end.
Definition wrap_du (m : nat) (branch : list csimple) (matches mapping : string) : list stmt :=
  (body_du 0 branch ++ flat_du (message_du mapping m)
   ++ [Bind matches ("message" :: mapping :: map result_var (seq 0 (List.length branch)))])%list.

(* the reading of the lines generateNested writes around the branches of the body *)
Definition nested_branch_du (pl child acc : string) (i : nat) (b : list csimple) : list stmt :=
  let brv := branch_var pl i in
  let bre := brv ++ "_errors" in
  [Compr brv (Bind child [pl] :: List.app (wrap_du 0 b (brv ++ "_inner_error") child) [Bind (brv ++ "_error") [child; brv ++ "_inner_error"]])
         [brv ++ "_error"];
   Compr bre [Bind "n" [brv]; Bind "nodeId" ["n"]] ["nodeId"];
   Compr (bre ++ "_errors") [Bind "n" [brv]; Bind "node" ["n"]] ["node"];
   Bind (acc ++ dec (S i)) [acc ++ dec i; bre ++ "_errors"]].
Definition nested_du (parent child : string) (branches : list (list csimple)) : list stmt :=
  let pl := plural child in
  let acc := child ++ "_errorAcc" in
  let agg := pl ++ "_error_node_variables_agg" in
  let k := List.length branches in
  List.app [Bind pl [parent]; Bind (acc ++ "0") []]
    (List.app (flat_map (fun ib : nat * list csimple => nested_branch_du pl child acc (fst ib) (snd ib)) (combine (seq 0 k) branches))
       [Bind acc [acc ++ dec k]; Bind agg (map (fun i => branch_var pl i ++ "_errors") (seq 0 k)); Bind "" [agg; pl]]).

(* ---- generateNested around the results of the body *)
Definition nested_simple (neg : bool) (qn : quant) (p : cnest) (rule : string) (results : list tres) : csimple :=
  let parent := cn_parent p in
  let child := cn_child p in
  let pl := plural child in
  let tp := trace_text (cn_path p) in
  let acc := child ++ "_errorAcc" in
  let agg := pl ++ "_error_node_variables_agg" in
  let wrapped :=
    flat_map (fun ib : nat * tres =>
      let (i, b) := ib in
      let brv := branch_var pl i in
      let bre := brv ++ "_errors" in
      [brv ++ " = [ " ++ brv ++ "_error|"; "  " ++ child ++ " = " ++ pl ++ "[_]"]
      +++ wrap_branch "nested" [] (paste_message ("error in nested nodes under " ++ tp)) (t_branch b) (brv ++ "_inner_error") child
      +++ ["  " ++ brv ++ "_error = [" ++ child ++ "[""@id""]," ++ brv ++ "_inner_error]"; "]";
          bre ++ " = { nodeId | n = " ++ brv ++ "[_]; nodeId = n[0] }";
          bre ++ "_errors = [ node | n = " ++ brv ++ "[_]; node = n[1] ]";
          acc ++ dec (S i) ++ " = array.concat(" ++ acc ++ dec i ++ "," ++ bre ++ "_errors)"])
      (combine (seq 0 (List.length results)) results) in
  let errs := map (fun i => branch_var pl i ++ "_errors") (seq 0 (List.length results)) in
  let failed := "count(" ++ agg ++ ")" in
  let test := match qn with
              | QAll => if neg then failed ++ " == 0" else failed ++ " > 0"
              | _ => (if neg then "" else "not ") ++ "count(" ++ pl ++ ") - " ++ failed ++ " " ++ quant_text qn
              end in
  let cid := match qn with QAll => "nested" | QAtLeast _ => "atLeast" | QAtMost _ => "atMost" end in
  let value := """negated"":" ++ bool_text neg ++ ", ""failedNodes"":" ++ failed ++ ", ""successfulNodes"":(count(" ++ pl ++ ")-" ++ failed ++ "),"
               ++ match qn with
                  | QAll => ""
                  | QAtLeast k | QAtMost k => " ""cardinality"":" ++ dec k ++ ", "
                  end ++ """subResult"": " ++ acc in
  {| cs_snip := {| sn_lines := ["#  querying path: " ++ cn_src p; pl ++ " = " ++ rule ++ " with data.sourceNode as " ++ parent; acc ++ "0 = []"]
                               ++ wrapped
                               ++ [acc ++ " = " ++ acc ++ dec (List.length results); "# let's accumulate results"; agg ++ " = " ++ join " | " errs; test];
                   sn_du := []; sn_id := cid; sn_path := tp; sn_value := value; sn_value_uses := [] |};
     cs_node := parent;
     cs_rules := path_rule (Some (cn_path p)) true false parent rule :: flat_map (fun b => flat_map cs_rules (t_branch b)) results;
     cs_origin := SNested neg qn p (map (fun b => map cs_origin (t_branch b)) results);
     cs_du := nested_du parent child (List.map t_branch results);
     cs_uses := [agg; pl; acc] |}.

(* ------------------------------------------------------------------ Dispatch *)
Fixpoint gen_all (g : crule -> nat -> option (list tres * nat)) (l : list crule) (c : nat) : option (list (list tres) * nat) :=
  match l with
  | [] => Some ([], c)
  | r :: rs =>
      match g r c with
      | Some (x, c1) => match gen_all g rs c1 with Some (y, c2) => Some (x :: y, c2) | None => None end
      | None => None
      end
  end.
Definition t_simples (rs : list (list tres)) : list csimple :=
  flat_map (flat_map (fun t => match t with TSimple s => [s] | TBranch _ => [] end)) rs.
Definition t_branchsets (rs : list (list tres)) : list (list (list csimple)) :=
  flat_map (fun r => match flat_map (fun t => match t with TBranch b => [b] | TSimple _ => [] end) r with [] => [] | bs => [bs] end) rs.
Definition t_expand_step (acc branches : list (list csimple)) : list (list csimple) :=
  flat_map (fun branch => map (fun src => List.app src branch) acc) branches.
Definition t_expand (s0 : list csimple) (bss : list (list (list csimple))) : list (list csimple) :=
  fold_left t_expand_step bss [s0].

Fixpoint gen (fuel : nat) (r : crule) (c : nat) {struct fuel} : option (list tres * nat) :=
  match fuel with
  | O => None
  | S fuel =>
    match r with
    | RAtom n a => let (s, c1) := gen_atom n a c in Some ([TSimple s], c1)
    | RAnd false l =>
        match gen_all (gen fuel) (sort_rules l) c with
        | Some (rs, c1) => Some (map (fun t => TBranch (t_branch t)) (List.concat rs), c1)
        | None => None
        end
    | RAnd true l => gen fuel (ROr false (map (@negate catom cnest) l)) c
    | ROr false l =>
        match gen_all (gen fuel) (sort_rules l) c with
        | Some (rs, c1) => Some (map TBranch (t_expand (t_simples rs) (t_branchsets rs)), c1)
        | None => None
        end
    | ROr true l => gen fuel (RAnd false (map (@negate catom cnest) l)) c
    | RCond n i t e =>
        match gen fuel (ROr n [negate i; t]) c with
        | None => None
        | Some (a, c1) =>
            match e with
            | None => Some (a, c1)
            | Some e' => match gen fuel (ROr n [i; e']) c1 with None => None | Some (b, c2) => Some (List.app a b, c2) end
            end
        end
    | RNested n qn p body =>
        let (rule, c1) := fresh "path_set_rule" c in
        match gen fuel body c1 with
        | Some (rs, c2) => Some ([TBranch [nested_simple n qn p rule rs]], c2)
        | None => None
        end
    end
  end.

(* ------------------------------------------------------------------ generateTopLevel / wrapTopLevelRegoResult / Generate *)
Record cvalidation := {
  cv_level : string; cv_name : string; cv_class : string (* expanded *); cv_var : string;
  cv_iris : list string (* placeholders of the message, expanded *); cv_expr : string (* the message as pasted *);
  cv_rule : crule }.

Definition sep2 : string := nl ++ nl.
Definition validation_text (fuel : nat) (v : cvalidation) (c : nat) : option (string * nat) :=
  match gen fuel (cv_rule v) c with
  | Some (rs, c1) =>
      let branches := map t_branch rs in
      let x := cv_var v in
      let paths := join sep2 (flat_map (flat_map cs_rules) branches) in
      let rules := join sep2 (map (fun b => join nl ([cv_level v ++ "[matches] {"; "  target_class[" ++ x ++ "] with data.class as " ++ q (cv_class v)]
                                                   ++ wrap_branch (cv_name v) (cv_iris v) (cv_expr v) b "matches" x ++ ["}"])) branches) in
      Some (join sep2 ["# Path rules"; paths; "# Constraint rules"; rules], c1)
  | None => None
  end.
Fixpoint validations_text (fuel : nat) (vs : list cvalidation) (c : nat) : option (list string * nat) :=
  match vs with
  | [] => Some ([], c)
  | v :: r =>
      match validation_text fuel v c with
      | Some (t, c1) => match validations_text fuel r c1 with Some (ts, c2) => Some (t :: ts, c2) | None => None end
      | None => None
      end
  end.

Record cprofile := { cp_name : string; cp_custom : option string; cp_vals : list cvalidation (* violation, warning, info *) }.
Definition has_level (p : cprofile) (l : string) : bool := existsb (fun v => String.eqb (cv_level v) l) (cp_vals p).
Definition module_text (fuel : nat) (preamble : string) (p : cprofile) (c : nat) : option (string * nat) :=
  match validations_text fuel (cp_vals p) c with
  | Some (ts, c1) =>
      let head := ["package " ++ package_name (cp_name p) ++ nl;
                   "report[""profile""] = " ++ q (escape (cp_name p));
                   match cp_custom p with Some s => join sep2 ["# Custom rego extensions"; s] | None => "" end;
                   join sep2 ([preamble] ++ (if has_level p "violation" then [] else ["default violation = []"])
                              ++ (if has_level p "warning" then [] else ["default warning = []"])
                              ++ (if has_level p "info" then [] else ["default info = []"]))] in
      Some (join nl (filter (fun s => negb (String.eqb s "")) (head ++ ts)), c1)
  | None => None
  end.

(* ------------------------------------------------------------------ "declarative and well scoped" as a test: every constraint speaks
   about the variable in scope and none is hand-written Rego (Proofs/ScopeProofs.v: the rule bodies of such a rule are safe) *)
Definition no_rego_b (a : catom) : bool := match ca_kind a with KRego _ _ => false | _ => true end.
Fixpoint scoped_b (v : string) (r : crule) {struct r} : bool :=
  match r with
  | RAtom _ a => String.eqb (ca_var a) v && no_rego_b a
  | RAnd _ l => (fix go (l : list crule) : bool := match l with [] => true | x :: xs => scoped_b v x && go xs end) l
  | ROr _ l => (fix go (l : list crule) : bool := match l with [] => true | x :: xs => scoped_b v x && go xs end) l
  | RCond _ i t e => scoped_b v i && scoped_b v t && match e with Some e' => scoped_b v e' | None => true end
  | RNested _ _ p body => String.eqb (cn_parent p) v && scoped_b (cn_child p) body
  end.
(* every validation of the profile is declarative and well scoped *)
Definition profile_scoped (p : cprofile) : bool := forallb (fun v => scoped_b (cv_var v) (cv_rule v)) (cp_vals p).
