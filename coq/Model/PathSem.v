(* Property paths: how the generated policy computes the values of a path from a node
   (internal/generator/path.go traverse*, aggregateResultsIntoSet and the preamble helpers
   nodes_array / nested_nodes / find / search_subjects), the direct compositional semantics [sem],
   and the abstract denotation [den] that C02 states (composition through nodes, union, converse). *)
From ACV Require Import Base.Strs Model.Graph Model.PathGrammar.

(* one step of an unfolded clause: predicate, direction, and whether the reached links are
   dereferenced through input["@ids"] (nested_nodes) or returned raw (nodes_array) *)
Record step := { s_iri : string; s_inv : bool; s_fetch : bool }.

(* a value bound to a path variable at run time: a full node object or a raw property value *)
Inductive rv := RNode (id : string) | RRaw (v : value).

Definition rv_eqb (a b : rv) : bool :=
  match a, b with
  | RNode x, RNode y => String.eqb x y
  | RRaw x, RRaw y => value_eqb x y
  | _, _ => false
  end.

Definition fetch_value (g : graph) (v : value) : list rv :=
  match v with
  | VRef x => if in_graph g x then [RNode x] else []      (* find: dangling links yield nothing *)
  | _ => []                                               (* literals have no "@id" *)
  end.

Definition subjects (g : graph) (iri id : string) : list node :=
  filter (fun m => existsb (links_to id) (props m iri)) g.

Definition step_from (g : graph) (s : step) (cur : rv) : list rv :=
  match cur with
  | RRaw _ => []
  | RNode id =>
    match find_node g id with
    | None => []
    | Some n =>
      if s_inv s then map (fun m => RNode (nid m)) (subjects g (s_iri s) id)       (* search_subjects *)
      else if s_fetch s then flat_map (fetch_value g) (props n (s_iri s))         (* nested_nodes ... [_][_] *)
      else map RRaw (props n (s_iri s))                                           (* nodes_array ... [_] *)
    end
  end.

Definition run (g : graph) (c : list step) (cur : list rv) : list rv :=
  fold_left (fun acc s => flat_map (step_from g s) acc) c cur.

(* traverse / traverseOr / traverseAnd / traverseRegularProperty: one clause per alternative;
   [prefix] are the steps already emitted (the traversal's rego so far) *)
Fixpoint trav (p : path) (fetch : bool) (prefix : list step) {struct p} : list (list step) :=
  match p with
  | Pred iri inv _ => [app prefix [{| s_iri := iri; s_inv := inv; s_fetch := fetch |}]]
  | Or l => flat_map (fun q => trav q fetch prefix) l
  | And l =>
      (fix go (l : list path) (prefix : list step) {struct l} : list (list step) :=
         match l with
         | [] => []
         | q :: r => match r with
                     | [] => trav q fetch prefix
                     | _ => flat_map (go r) (trav q true prefix)
                     end
         end) l prefix
  end.

(* aggregateResultsIntoSet: the union of the clauses, as a set *)
Definition model_values (g : graph) (p : path) (fetch : bool) (n : string) : list rv :=
  dedup rv_eqb (flat_map (fun c => run g c [RNode n]) (trav p fetch [])).

(* direct compositional semantics of the same computation *)
Fixpoint sem (g : graph) (p : path) (fetch : bool) (cur : rv) {struct p} : list rv :=
  match p with
  | Pred iri inv _ => step_from g {| s_iri := iri; s_inv := inv; s_fetch := fetch |} cur
  | Or l => flat_map (fun q => sem g q fetch cur) l
  | And l =>
      (fix go (l : list path) (cur : rv) {struct l} : list rv :=
         match l with
         | [] => []
         | q :: r => match r with
                     | [] => sem g q fetch cur
                     | _ => flat_map (go r) (sem g q true cur)
                     end
         end) l cur
  end.

(* ------------------------------------------------------------------ specification (C02) *)
(* abstract values: a node is its id however it was reached; a literal is itself *)
Inductive aval := ARef (id : string) | ALit (v : value).
Definition abs (v : value) : aval := match v with VRef x => ARef x | _ => ALit v end.
Definition erase (r : rv) : aval := match r with RNode x => ARef x | RRaw v => abs v end.

Definition aval_eqb (a b : aval) : bool :=
  match a, b with
  | ARef x, ARef y => String.eqb x y
  | ALit x, ALit y => value_eqb x y
  | _, _ => false
  end.

Definition den_step (g : graph) (iri : string) (inv : bool) (n : string) : list aval :=
  match find_node g n with
  | None => []
  | Some nd => if inv then map (fun m => ARef (nid m)) (subjects g iri n) else map abs (props nd iri)
  end.

(* predicate -> its objects; `/` composes through nodes; `|` unions; `^` converse *)
Fixpoint den (g : graph) (p : path) (n : string) {struct p} : list aval :=
  match p with
  | Pred iri inv _ => den_step g iri inv n
  | Or l => flat_map (fun q => den g q n) l
  | And l =>
      (fix go (l : list path) (n : string) {struct l} : list aval :=
         match l with
         | [] => []
         | q :: r => match r with
                     | [] => den g q n
                     | _ => flat_map (fun a => match a with
                                               | ARef x => if in_graph g x then go r x else []
                                               | ALit _ => []
                                               end) (den g q n)
                     end
         end) l n
  end.

(* observables of a path at a node, model side and specification side *)
Definition aval_as_string (a : aval) : string :=
  match a with ARef x => x | ALit v => value_as_string v end.
Definition rv_as_string (r : rv) : string :=
  match r with RNode x => x | RRaw v => value_as_string v end.

Definition model_strings (g : graph) (p : path) (n : string) : list string :=
  dedup String.eqb (map rv_as_string (model_values g p false n)).
Definition model_count (g : graph) (p : path) (n : string) : nat := List.length (model_values g p false n).
Definition model_nodes (g : graph) (p : path) (n : string) : list string :=
  dedup String.eqb (map rv_as_string (model_values g p true n)).

Definition spec_values (g : graph) (p : path) (n : string) : list aval := dedup aval_eqb (den g p n).
Definition spec_strings (g : graph) (p : path) (n : string) : list string :=
  dedup String.eqb (map aval_as_string (den g p n)).
Definition spec_count (g : graph) (p : path) (n : string) : nat := List.length (spec_values g p n).
Definition spec_nodes (g : graph) (p : path) (n : string) : list string :=
  dedup String.eqb (flat_map (fun a => match a with ARef x => if in_graph g x then [x] else [] | _ => [] end) (den g p n)).

(* the known defect class D4: one node reached both as a link object (forward last step) and as a
   node object (inverse last step) is two values for the engine *)
Definition mixed_final (vals : list rv) : bool :=
  existsb (fun r => match r with
                    | RNode x => existsb (rv_eqb (RRaw (VRef x))) vals
                    | _ => false end) vals.
