(* The normalised input graph as the generated policy sees it: input["@ids"] (node objects by id) and
   input["@types"].  A node object maps property IRIs to one value or an array of values
   (nodes_array makes the two indistinguishable); "@type" is stored like a property whose values are
   the class IRIs as strings.  Values: strings, integers, booleans, link objects {"@id": x}. *)
From Coq Require Export ZArith.
From Coq Require Import DecimalString.
From ACV Require Export Base.Strs.

Inductive value :=
| VStr (s : string)
| VInt (z : Z)
| VBool (b : bool)
| VRef (id : string).          (* {"@id": id} *)

Definition value_eqb (a b : value) : bool :=
  match a, b with
  | VStr x, VStr y => String.eqb x y
  | VInt x, VInt y => Z.eqb x y
  | VBool x, VBool y => Bool.eqb x y
  | VRef x, VRef y => String.eqb x y
  | _, _ => false
  end.

Lemma value_eqb_eq : forall a b, value_eqb a b = true <-> a = b.
Proof.
  intros [x|x|x|x] [y|y|y|y]; simpl; split; intros H; try discriminate; try congruence.
  - apply String.eqb_eq in H; congruence.
  - inversion H; apply String.eqb_refl.
  - apply Z.eqb_eq in H; congruence.
  - inversion H; apply Z.eqb_refl.
  - apply Bool.eqb_prop in H; congruence.
  - inversion H; apply Bool.eqb_reflx.
  - apply String.eqb_eq in H; congruence.
  - inversion H; apply String.eqb_refl.
Qed.

Record node := { nid : string; nprops : list (string * list value) }.
Definition graph := list node.

Definition find_node (g : graph) (id : string) : option node :=
  List.find (fun n => String.eqb (nid n) id) g.
Definition in_graph (g : graph) (id : string) : bool :=
  match find_node g id with Some _ => true | None => false end.

Fixpoint assoc {V} (k : string) (l : list (string * V)) : option V :=
  match l with
  | [] => None
  | (k', v) :: l' => if String.eqb k' k then Some v else assoc k l'
  end.
Definition props (n : node) (p : string) : list value :=
  match assoc p (nprops n) with Some vs => vs | None => [] end.
Definition types_of (n : node) : list value := props n "@type".
Definition has_type (n : node) (c : string) : bool := existsb (value_eqb (VStr c)) (types_of n).

(* target_class: the nodes listed under input["@types"][class] *)
Definition targets (g : graph) (c : string) : list node := filter (fun n => has_type n c) g.

Definition links_to (id : string) (v : value) : bool :=
  match v with VRef x => String.eqb x id | _ => false end.

Definition dec_of_Z (z : Z) : string := NilZero.string_of_int (Z.to_int z).

(* as_string of the preamble, on the values we model *)
Definition value_as_string (v : value) : string :=
  match v with
  | VStr s => s
  | VInt z => dec_of_Z z
  | VBool true => "true"
  | VBool false => "false"
  | VRef x => x
  end.

(* generic helpers on lists used as sets *)
Fixpoint dedup {X} (eqb : X -> X -> bool) (l : list X) : list X :=
  match l with
  | [] => []
  | x :: r => if existsb (eqb x) r then dedup eqb r else x :: dedup eqb r
  end.
Definition str_mem (x : string) (l : list string) : bool := existsb (String.eqb x) l.
