(* C08: what decides whether a profile can reach the network or the host.  The generated module (all embedded
   Rego included, wherever the profile placed it) is handed to ONE rego.New(query, module, UnsafeBuiltins(deny))
   call; the engine's capability check is an oracle with a stated behaviour; a rejected compilation ends the
   call before anything is evaluated (Pipeline). *)
From ACV Require Import Base.Strs Model.BuiltinClass Model.Pipeline.
Local Open Scope list_scope.

Definition in_list (x : string) (l : list string) : bool := existsb (String.eqb x) l.
Definition incl_b (a b : list string) : bool := forallb (fun x => in_list x b) a.

(* where a profile can put Rego *)
Inductive position := InlineRego | RegoModule | CodeMessageForm | RegoExtensions | UnderPropertyPath | UnderNested | UnderLogical | UnusedHelper.
Record embedded := { e_pos : position; e_text : string }.

(* the text that reaches the module: $result / $node / $traceNode / $message are replaced by generated variable
   names; [subst] is that replacement, whatever it is *)
Section Module.
Variable subst : string -> string.
Definition module_fragments (preamble : string) (es : list embedded) : list string :=
  preamble :: map (fun e => subst (e_text e)) es.

(* the engine: compile rejects a module when some fragment calls a deny-listed built-in, wherever the call sits *)
Variable calls : string -> string -> bool.          (* fragment, built-in name *)
Definition engine_rejects (deny : list string) (fragments : list string) : bool :=
  existsb (fun fr => existsb (fun b => calls fr b) deny) fragments.
End Module.

(* nothing is evaluated after a rejected compilation *)
Definition evaluates (t : list act) : bool :=
  existsb (fun a => match a with Send (Start OpaValidation) => true | _ => false end) t.
