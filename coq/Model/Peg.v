(* Generic PEG syntax, a fuelled interpreter producing a generic parse tree, and the relational
   (big-step) semantics the interpreter is proved sound and complete for (Proofs/PegProofs.v).
   The expression forms are exactly the node kinds pigeon emits into peg.go:
   litMatcher, charClassMatcher, seqExpr, choiceExpr, zeroOrMoreExpr, oneOrMoreExpr, zeroOrOneExpr,
   ruleRefExpr, actionExpr (labels are positional in the tree). *)
From ACV Require Import Base.Strs.

Inductive pe :=
| PLit (s : string)
| PClass (chars : list ascii) (ranges : list (ascii * ascii))
| PSeq (l : list pe)
| PChoice (l : list pe)
| PStar (e : pe)
| PPlus (e : pe)
| POpt (e : pe)
| PRef (name : string)
| PAct (tag : string) (e : pe).

Inductive tree :=
| TStr (s : string)                 (* text matched by a literal / class *)
| TNil                              (* unmatched optional *)
| TList (l : list tree)             (* seq / star / plus *)
| TAct (tag : string) (t : tree).

Definition grammar := list (string * pe).

Fixpoint lookup (g : grammar) (n : string) : option pe :=
  match g with
  | [] => None
  | (k, e) :: g' => if String.eqb k n then Some e else lookup g' n
  end.

Definition in_class (c : ascii) (chars : list ascii) (ranges : list (ascii * ascii)) : bool :=
  existsb (Ascii.eqb c) chars ||
  existsb (fun r => Nat.leb (nat_of_ascii (fst r)) (nat_of_ascii c)
                    && Nat.leb (nat_of_ascii c) (nat_of_ascii (snd r))) ranges.

Fixpoint strip_prefix (p s : string) : option string :=
  match p, s with
  | EmptyString, _ => Some s
  | String a p', String b s' => if Ascii.eqb a b then strip_prefix p' s' else None
  | _, _ => None
  end.

Inductive res := OutOfFuel | Fail | Ok (t : tree) (rest : string).

(* sequence and ordered choice over a list, parameterised by the recursive call *)
Fixpoint seq_with (f : pe -> string -> res) (l : list pe) (acc : list tree) (s : string) : res :=
  match l with
  | [] => Ok (TList (rev acc)) s
  | e1 :: l' => match f e1 s with
                | Ok t r => seq_with f l' (t :: acc) r
                | Fail => Fail
                | OutOfFuel => OutOfFuel
                end
  end.
Fixpoint choice_with (f : pe -> string -> res) (l : list pe) (s : string) : res :=
  match l with
  | [] => Fail
  | e1 :: l' => match f e1 s with
                | Ok t r => Ok t r
                | Fail => choice_with f l' s
                | OutOfFuel => OutOfFuel
                end
  end.

Fixpoint interp (g : grammar) (fuel : nat) (e : pe) (s : string) {struct fuel} : res :=
  match fuel with
  | O => OutOfFuel
  | S fuel =>
    match e with
    | PLit l => match strip_prefix l s with Some r => Ok (TStr l) r | None => Fail end
    | PClass cs rs =>
        match s with
        | String c s' => if in_class c cs rs then Ok (TStr (String c EmptyString)) s' else Fail
        | EmptyString => Fail
        end
    | PSeq l => seq_with (interp g fuel) l [] s
    | PChoice l => choice_with (interp g fuel) l s
    | PStar e1 =>
        match interp g fuel e1 s with
        | Ok t r => match interp g fuel (PStar e1) r with
                    | Ok (TList ts) r' => Ok (TList (t :: ts)) r'
                    | Ok _ _ => OutOfFuel                  (* unreachable: a star yields a TList *)
                    | Fail => OutOfFuel                    (* unreachable: a star never fails *)
                    | OutOfFuel => OutOfFuel
                    end
        | Fail => Ok (TList []) s
        | OutOfFuel => OutOfFuel
        end
    | PPlus e1 =>
        match interp g fuel e1 s with
        | Ok t r => match interp g fuel (PStar e1) r with
                    | Ok (TList ts) r' => Ok (TList (t :: ts)) r'
                    | Ok _ _ => OutOfFuel
                    | Fail => OutOfFuel
                    | OutOfFuel => OutOfFuel
                    end
        | Fail => Fail
        | OutOfFuel => OutOfFuel
        end
    | POpt e1 => match interp g fuel e1 s with
                 | Ok t r => Ok t r
                 | Fail => Ok TNil s
                 | OutOfFuel => OutOfFuel
                 end
    | PRef n => match lookup g n with Some e1 => interp g fuel e1 s | None => Fail end
    | PAct tag e1 => match interp g fuel e1 s with
                     | Ok t r => Ok (TAct tag t) r
                     | Fail => Fail
                     | OutOfFuel => OutOfFuel
                     end
    end
  end.

(* the text a tree spans *)
Fixpoint text (t : tree) : string :=
  match t with
  | TStr s => s
  | TNil => ""
  | TList l => fold_right (fun t acc => text t ++ acc) "" l
  | TAct _ t => text t
  end.
Definition texts (l : list tree) : string := fold_right (fun t acc => text t ++ acc) "" l.

(* ------------------------------------------------------------------ relational semantics *)
Inductive outc := OFail | OOk (t : tree) (rest : string).

Inductive ev (g : grammar) : pe -> string -> outc -> Prop :=
| ev_lit_ok : forall l s r, strip_prefix l s = Some r -> ev g (PLit l) s (OOk (TStr l) r)
| ev_lit_fail : forall l s, strip_prefix l s = None -> ev g (PLit l) s OFail
| ev_class_ok : forall c s cs rs, in_class c cs rs = true ->
    ev g (PClass cs rs) (String c s) (OOk (TStr (String c EmptyString)) s)
| ev_class_no : forall c s cs rs, in_class c cs rs = false -> ev g (PClass cs rs) (String c s) OFail
| ev_class_eof : forall cs rs, ev g (PClass cs rs) EmptyString OFail
| ev_seq : forall l s o, evs g l [] s o -> ev g (PSeq l) s o
| ev_choice : forall l s o, evc g l s o -> ev g (PChoice l) s o
| ev_star_stop : forall e s, ev g e s OFail -> ev g (PStar e) s (OOk (TList []) s)
| ev_star_more : forall e s t r ts r',
    ev g e s (OOk t r) -> ev g (PStar e) r (OOk (TList ts) r') -> ev g (PStar e) s (OOk (TList (t :: ts)) r')
| ev_plus_fail : forall e s, ev g e s OFail -> ev g (PPlus e) s OFail
| ev_plus_ok : forall e s t r ts r',
    ev g e s (OOk t r) -> ev g (PStar e) r (OOk (TList ts) r') -> ev g (PPlus e) s (OOk (TList (t :: ts)) r')
| ev_opt_some : forall e s t r, ev g e s (OOk t r) -> ev g (POpt e) s (OOk t r)
| ev_opt_none : forall e s, ev g e s OFail -> ev g (POpt e) s (OOk TNil s)
| ev_ref : forall n e s o, lookup g n = Some e -> ev g e s o -> ev g (PRef n) s o
| ev_ref_missing : forall n s, lookup g n = None -> ev g (PRef n) s OFail
| ev_act_ok : forall tag e s t r, ev g e s (OOk t r) -> ev g (PAct tag e) s (OOk (TAct tag t) r)
| ev_act_fail : forall tag e s, ev g e s OFail -> ev g (PAct tag e) s OFail
with evs (g : grammar) : list pe -> list tree -> string -> outc -> Prop :=
| evs_nil : forall acc s, evs g [] acc s (OOk (TList (rev acc)) s)
| evs_ok : forall e l acc s t r o, ev g e s (OOk t r) -> evs g l (t :: acc) r o -> evs g (e :: l) acc s o
| evs_fail : forall e l acc s, ev g e s OFail -> evs g (e :: l) acc s OFail
with evc (g : grammar) : list pe -> string -> outc -> Prop :=
| evc_nil : forall s, evc g [] s OFail
| evc_ok : forall e l s t r, ev g e s (OOk t r) -> evc g (e :: l) s (OOk t r)
| evc_next : forall e l s o, ev g e s OFail -> evc g l s o -> evc g (e :: l) s o.

Scheme ev_mind := Induction for ev Sort Prop
  with evs_mind := Induction for evs Sort Prop
  with evc_mind := Induction for evc Sort Prop.
Combined Scheme ev_mutind from ev_mind, evs_mind, evc_mind.

Definition res_of (o : outc) : res := match o with OFail => Fail | OOk t r => Ok t r end.
