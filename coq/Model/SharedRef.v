(* Shared state and map-iteration sites of the non-test code as they were when Model/Sched.v was written,
   each with its classification; compared with Extracted/SharedFacts.v and Extracted/RangeFacts.v. *)
From Coq Require Import List String.
Import ListNotations.
Open Scope string_scope.

(* every package-level variable, and why concurrent calls do not interfere through it *)
Inductive var_class := Synchronised | ReadOnlyAfterInit.
Definition classified_vars : list (string * var_class) :=
  [ ("internal/parser/profile/vargenerator.go:globalCounter", Synchronised);        (* sync/atomic; Sched.AGen *)
    ("internal/validator/process_profile.go:unsafeBuiltinsMap", ReadOnlyAfterInit);
    ("internal/validator/report_nodes.go:processingDataNode", ReadOnlyAfterInit);   (* shared by all reports, only encoded *)
    ("internal/validator/contexts/contexts.go:ApiExtensionUri", ReadOnlyAfterInit);
    ("internal/validator/contexts/contexts.go:DefaultAMFContext", ReadOnlyAfterInit) ]. (* copied by IriExpanderFrom, never written *)
Definition ref_genreset_call_sites : list string := ["internal/validator/test_utils.go"].   (* a test helper, not reachable from the API *)
Definition ref_sk_genvar : string := "return call Sprintf, call AddInt64".
Definition ref_sk_get_map_keys : string := "call Map; if err != nil { return }; call make; for { if pending { call append; call delete } }; return".

(* every `range` over a map, and why the iteration order cannot reach an output *)
Inductive range_class :=
| BuildsMap        (* only inserts the entries into another map: Sched.merge_order_irrelevant *)
| IdsFromKeys      (* defineIdRecursively: the id of a child is a function of its key / index: ReportProofs.ids_paths *)
| ParserInternal.  (* generated PEG runtime: copies / discards its memo and state tables, no output depends on the order *)
Definition classified_ranges : list (string * range_class) :=
  [ ("internal/generator/generator.go:IriExpanderFrom", BuildsMap);
    ("internal/parser/path/peg.go:Discard", ParserInternal);
    ("internal/parser/path/peg.go:cloneState", ParserInternal);
    ("internal/parser/path/peg.go:parse", ParserInternal);
    ("internal/types/object.go:MergeObjectMap", BuildsMap);
    ("internal/types/object.go:MergeStringMap", BuildsMap);
    ("internal/validator/report.go:defineIdRecursively", IdsFromKeys) ].

(* how Normalize drives the JSON-LD processor: default options (JSON-LD 1.1), empty base, empty context *)
Definition ref_normalize_options : list string := ["NewJsonLdOptions("""")"; "Flatten(json, context, options)"].
Definition ref_sk_yaml_get : string := "if y.data != nil && y.data.Kind == yaml.MappingNode { for { if k.Kind == yaml.ScalarNode && k.Value == key { return } } }; return".
Definition ref_sk_iri_expander_from : string := "call make; call MergeObjectMap; range profile.Prefixes {  }; return".

(* the order in which the profile parser looks keys up (string literals passed to Yaml.Get, in source order):
   ProfileParser.expr_body / parse_pc / pc_qualified / parse_profile are written in this order *)
Definition ref_parser_expression_key_order : list string :=
  ["propertyConstraints"; "rego"; "regoModule"; "and"; "or"; "not"; "if"; "then"; "else"]%string.
Definition ref_parser_validation_key_order : list string := ["targetClass"; "message"]%string.
Definition ref_parser_constraint_key_order : list string :=
  ["minCount"; "maxCount"; "exactCount"; "minLength"; "maxLength"; "exactLength"; "pattern"; "in"; "uniqueValues"; "containsAll";
   "containsSome"; "lessThanProperty"; "lessThanOrEqualsToProperty"; "equalsToProperty"; "disjointWithProperty"; "moreThanProperty";
   "moreThanOrEqualsToProperty"; "atLeast"; "atMost"; "exactly"; "minInclusive"; "minExclusive"; "maxInclusive"; "maxExclusive";
   "datatype"; "nested"; "rego"; "regoModule"]%string.
Definition ref_parser_qualified_key_order : list string := ["count"; "validation"]%string.
Definition ref_parser_profile_key_order : list string := ["profile"; "description"; "rego_extensions"; "prefixes"; "validations"]%string.
Definition ref_parser_level_order : list string := ["violation"; "warning"; "info"]%string.
