
val fold_left : ('a1 -> 'a2 -> 'a1) -> 'a2 list -> 'a1 -> 'a1
