open BinNums
open Datatypes

module Pos :
 sig
  val succ : positive -> positive

  val of_succ_nat : nat -> positive
 end
