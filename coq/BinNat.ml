open BinNums
open BinPos
open Datatypes

module N =
 struct
  (** val of_nat : nat -> coq_N **)

  let of_nat = function
  | O -> N0
  | S n' -> Npos (Pos.of_succ_nat n')
 end
