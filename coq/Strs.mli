open Datatypes

val sdrop : nat -> char list -> char list
