(* C01 from the profile TEXT: what the model reports for a YAML tree is, for every listed validation, exactly the
   instances of its target class on which the parsed formula fails - the classical formula wherever the atoms met under
   negation are complementary. *)
From ACV Require Import Base.Strs Model.Graph Model.PathGrammar Model.PathSem Model.Dnf Model.Rules Model.Report Model.Engine Model.Yaml Model.ProfileParser.
From ACV Require Import Proofs.PathSemProofs Proofs.RulesProofs Proofs.ParserCongruence Proofs.ParserMessages.
Local Open Scope list_scope.

Lemma level_in_all (l : level) : In l (Violation :: Warning :: Info :: nil).
Proof. destruct l; simpl; auto. Qed.

Lemma in_levels {X} (F : level -> list X) (x : X) :
  In x (flat_map F (Violation :: Warning :: Info :: nil)) <-> exists l, In x (F l).
Proof.
  split.
  - intros H. apply in_flat_map in H as [l [_ H]]. eauto.
  - intros [l H]. apply in_flat_map. exists l. split; [apply level_in_all|assumption].
Qed.

Lemma level_eqb_eq a b : level_eqb a b = true <-> a = b.
Proof. destruct a, b; simpl; split; intros H; try reflexivity; try discriminate. Qed.

Lemma level_results_In g p l r :
  In r (level_results g p l) <->
  exists nm d n, In (l, nm) (p_listed p) /\ find_def p nm = Some d /\ In n (validation_results g (v_class d) (v_form d))
                 /\ r = {| r_name := v_name d; r_focus := nid n; r_msg := v_msg d; r_tree := unit_tree |}.
Proof.
  rewrite level_results_list.
  assert (Hrefl : forall a, result_eqb a a = true) by (intros a; unfold result_eqb; now rewrite !String.eqb_refl).
  rewrite (dedup_In_local result_eqb (level_list g p l) Hrefl (results_determined g p l)).
  unfold level_list. split.
  - intros Hin. apply in_flat_map in Hin as [[lv nm] [Hln Hr]]. simpl in Hr. destruct (level_eqb l lv) eqn:E; [|destruct Hr]. apply level_eqb_eq in E. subst lv.
    destruct (find_def p nm) as [d|] eqn:Ed; [|destruct Hr]. apply in_map_iff in Hr as [n [Er Hn]].
    exists nm, d, n. auto.
  - intros [nm [d [n [Hln [Ed [Hn Er]]]]]]. apply in_flat_map. exists (l, nm). split; [assumption|]. simpl.
    assert (E : level_eqb l l = true) by (now apply level_eqb_eq). rewrite E, Ed. apply in_map_iff. exists n. auto.
Qed.

(* literal level: no hypothesis on the atoms *)
Theorem verdict_from_text : forall defaults doc g v, verdict defaults doc g = POk v ->
  exists p, parse_profile defaults doc = POk p /\
  forall l nm fo msg,
    In (l, nm, fo, msg) v <->
    exists d n, In (l, nm) (p_listed p) /\ find_def p nm = Some d /\ msg = v_msg d /\
                In n g /\ nid n = fo /\ has_type n (v_class d) = true /\ lsat g true (v_form d) fo = false.
Proof.
  intros defaults doc g v H. unfold verdict in H. destruct (parse_profile defaults doc) as [p| |]; try discriminate. cbn [pbind] in H.
  destruct (forallb (fun d => wf_form (v_form d)) (p_defs p)) eqn:W; try discriminate. injection H as Hv. subst v.
  exists p. split; [reflexivity|]. intros l nm fo msg. rewrite forallb_forall in W.
  set (F := fun l0 : level => map (fun r : Report.result => (l0, r_name r, r_focus r, r_msg r)) (level_results g p l0)).
  split.
  - intros Hin. apply (in_levels F) in Hin as [l0 Hx]. unfold F in Hx. apply in_map_iff in Hx as [r [Er Hr]]. inversion Er; subst. clear Er.
    apply level_results_In in Hr as [nm [d [n [Hln [Ed [Hn Er]]]]]]. subst r. simpl.
    assert (Hd : In d (p_defs p)) by (unfold find_def in Ed; apply find_some in Ed; tauto).
    assert (Enm : v_name d = nm) by (unfold find_def in Ed; apply find_some in Ed as [_ E]; now apply String.eqb_eq in E).
    apply (results_exactly g (v_class d) (v_form d) (W d Hd)) in Hn as [H1 [H2 H3]].
    exists d, n. rewrite Enm. repeat split; auto.
  - intros [d [n [Hln [Ed [Em [Hn [Ef [Ht Hs]]]]]]]]. apply (in_levels F). exists l. unfold F.
    assert (Hd : In d (p_defs p)) by (unfold find_def in Ed; apply find_some in Ed; tauto).
    assert (Enm : v_name d = nm) by (unfold find_def in Ed; apply find_some in Ed as [_ E]; now apply String.eqb_eq in E).
    apply in_map_iff. exists {| r_name := v_name d; r_focus := nid n; r_msg := v_msg d; r_tree := unit_tree |}. simpl.
    split; [now rewrite Enm, Ef, Em|]. apply level_results_In. exists nm, d, n. repeat split; auto.
    apply (results_exactly g (v_class d) (v_form d) (W d Hd)). subst fo. auto.
Qed.

(* classical level: under the complementarity condition the failing formula is the classical one *)
Corollary verdict_from_text_classical : forall defaults doc g v, verdict defaults doc g = POk v ->
  exists p, parse_profile defaults doc = POk p /\
  forall l nm fo d, In (l, nm) (p_listed p) -> find_def p nm = Some d -> compl_ok g true (v_form d) fo = true ->
    (In (l, nm, fo, v_msg d) v <->
     exists n, In n g /\ nid n = fo /\ has_type n (v_class d) = true /\ csat g (v_form d) fo = false).
Proof.
  intros defaults doc g v H. destruct (verdict_from_text defaults doc g v H) as [p [Hp Hv]]. exists p. split; [assumption|].
  intros l nm fo d Hln Ed Hc.
  pose proof (lsat_classical g (v_form d) true fo Hc) as Hl. simpl in Hl.
  rewrite Hv. split.
  - intros [d' [n' [_ [Ed' [_ [Hn' [Ef' [Ht' Hs']]]]]]]]. rewrite Ed in Ed'. inversion Ed'; subst d'.
    exists n'. repeat split; auto. congruence.
  - intros [n [Hn [Ef [Ht Hs]]]]. exists d, n. repeat split; auto. congruence.
Qed.

(* non-vacuity: the two verdict entries of the example profile are explained this way *)
Example verdict_from_text_example :
  exists v, verdict [] ex_doc ex_graph = POk v /\ In (Violation, "a", "n1", "m")%string v /\ ~ In (Violation, "a", "n2", "m")%string v.
Proof. eexists. split; [vm_compute; reflexivity|]. split; [simpl; auto|]. simpl. intros [H|[H|[]]]; discriminate H. Qed.

(* C12 from the text: every entry of the verdict names a validation that the document defines under `validations` and lists
   under the level of the entry; its message is the one the parser assigns to that validation *)
Lemma parse_profile_structure defaults doc p : parse_profile defaults doc = POk p ->
  exists vals, yget "validations"%string doc = Some (YMap vals) /\
    (forall ln, In ln (p_listed p) -> In ln (listed_of doc)) /\
    (forall d, In d (p_defs p) -> exists body, In (v_name d, body) vals /\ v_msg d = Proofs.ParserMessages.message_of body).
Proof.
  intros H. destruct doc as [t a|l|s]; try discriminate. rewrite parse_profile_unfold in H.
  destruct (yget "profile" (YMap l)) as [n|]; try discriminate. destruct (y_string n); try discriminate.
  destruct (present "rego_extensions" (YMap l)); try discriminate.
  destruct (prefixes_of (YMap l)) as [pfx| |]; cbn [pbind] in H; try discriminate. cbv zeta in H.
  destruct (yget "validations" (YMap l)) as [vm|]; try discriminate. destruct vm as [| vals |]; try discriminate.
  match type of H with pbind (map_p ?f ?used) _ = _ => destruct (map_p f used) as [defs| |] eqn:E; cbn [pbind] in H; try discriminate end.
  injection H as Hp. subst p. exists vals. split; [reflexivity|]. split.
  - intros ln Hln. simpl in Hln. apply filter_In in Hln. tauto.
  - intros d Hd. simpl in Hd. destruct (Proofs.ParserMessages.map_p_In _ _ _ _ E Hd) as [[k body] [Hin Hf]].
    apply filter_In in Hin as [Hin _]. destruct (Proofs.ParserMessages.parse_def_message _ _ _ _ Hf) as [En Em].
    exists body. rewrite En. auto.
Qed.

Theorem verdict_names_from_text : forall defaults doc g v, verdict defaults doc g = POk v ->
  exists vals, yget "validations"%string doc = Some (YMap vals) /\
  forall l nm fo msg, In (l, nm, fo, msg) v ->
    In (l, nm) (listed_of doc) /\ (exists n, In n g /\ nid n = fo) /\ exists body, In (nm, body) vals /\ msg = Proofs.ParserMessages.message_of body.
Proof.
  intros defaults doc g v H. destruct (verdict_from_text defaults doc g v H) as [p [Hp Hv]].
  destruct (parse_profile_structure defaults doc p Hp) as [vals [Hvals [Hl Hd]]]. exists vals. split; [assumption|].
  intros l nm fo msg Hin. apply Hv in Hin as [d [n [Hln [Ed [Em [Hn [Ef _]]]]]]].
  split; [now apply Hl|]. split; [eauto|].
  assert (Hdin : In d (p_defs p)) by (unfold find_def in Ed; apply find_some in Ed; tauto).
  assert (Enm : v_name d = nm) by (unfold find_def in Ed; apply find_some in Ed as [_ E]; now apply String.eqb_eq in E).
  destruct (Hd d Hdin) as [body [Hb Hm]]. exists body. rewrite <- Enm. split; [assumption|congruence].
Qed.

(* C03 from the text: the report built for a profile text conforms exactly when the verdict holds no violation-level entry *)
Definition report_from_text (defaults : list (string * string)) (doc : ynode) (g : graph) (c : cfg) : presult report :=
  pbind (parse_profile defaults doc) (fun p => POk (validate g p c)).

Theorem conforms_from_text : forall defaults doc g c rp v,
  report_from_text defaults doc g c = POk rp -> verdict defaults doc g = POk v ->
  (rp_conforms rp = true <-> forall nm fo msg, ~ In (Violation, nm, fo, msg) v).
Proof.
  intros defaults doc g c rp v Hr Hv. unfold report_from_text in Hr. unfold verdict in Hv.
  destruct (parse_profile defaults doc) as [p| |]; try discriminate. cbn [pbind] in Hr, Hv.
  destruct (forallb (fun d => wf_form (v_form d)) (p_defs p)); try discriminate.
  injection Hr as Hr. injection Hv as Hv. subst rp v.
  unfold validate, build_report, engine_of. simpl rp_conforms. simpl e_violation.
  set (F := fun l0 : level => map (fun r : Report.result => (l0, r_name r, r_focus r, r_msg r)) (level_results g p l0)).
  split.
  - intros Hn nm fo msg Hin. apply (in_levels F) in Hin as [l0 Hx]. unfold F in Hx. apply in_map_iff in Hx as [r [Er Hin]].
    injection Er as El _ _ _. subst l0. clear F. destruct (level_results g p Violation); [destruct Hin|discriminate].
  - intros H. destruct (is_nil (level_results g p Violation)) eqn:N; [reflexivity|]. exfalso.
    assert (Hex : exists r, In r (level_results g p Violation)).
    { clear H. destruct (level_results g p Violation) as [|r rs]; [discriminate|]. exists r. simpl. now left. }
    destruct Hex as [r Hin]. apply (H (r_name r) (r_focus r) (r_msg r)). apply (in_levels F). exists Violation. unfold F.
    apply in_map_iff. exists r. auto.
Qed.
