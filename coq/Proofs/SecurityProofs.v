From ACV Require Import Base.Strs Model.BuiltinClass Model.Pipeline Model.Security Proofs.PipelineProofs.
Local Open Scope list_scope.

Lemma in_list_In x l : in_list x l = true <-> In x l.
Proof.
  unfold in_list. rewrite existsb_exists. split.
  - intros [y [Hy E]]. apply String.eqb_eq in E. now subst.
  - intros H. exists x. split; [assumption|apply String.eqb_refl].
Qed.

(* every embedded text, whatever its position, is a fragment of the one module that is compiled *)
Theorem all_positions_in_module : forall subst preamble es e, In e es ->
  In (subst (e_text e)) (module_fragments subst preamble es).
Proof. intros. unfold module_fragments. right. apply in_map_iff. eauto. Qed.

(* if the deny-list contains the dangerous names, a module in which any embedded text calls one is rejected *)
Theorem dangerous_call_rejected : forall subst calls deny preamble es e b,
  incl_b dangerous_names deny = true -> In e es -> In b dangerous_names -> calls (subst (e_text e)) b = true ->
  engine_rejects calls deny (module_fragments subst preamble es) = true.
Proof.
  intros subst calls deny preamble es e b Hincl He Hb Hc. unfold engine_rejects.
  apply existsb_exists. exists (subst (e_text e)). split; [now apply all_positions_in_module|].
  apply existsb_exists. exists b. split; [|assumption].
  unfold incl_b in Hincl. rewrite forallb_forall in Hincl. apply in_list_In. now apply Hincl.
Qed.

(* a rejected compilation: an error, the channel closed, and the evaluation stage never starts *)
Theorem rejected_nothing_evaluated : forall e f, f_parse f = OOk -> f_generate f = OOk -> f_compile f = OErr -> e <> EValidateCompiled ->
  snd (run_entry as_coded e f) = KError /\ evaluates (fst (run_entry as_coded e f)) = false.
Proof.
  intros e f H1 H2 H3 He.
  assert (H : implb (match f_parse f, f_generate f, f_compile f with OOk, OOk, OErr => true | _, _, _ => false end
                     && match e with EValidateCompiled => false | _ => true end)
                    (kind_eqb (snd (run_entry as_coded e f)) KError && negb (evaluates (fst (run_entry as_coded e f)))) = true).
  { apply (finite_check (fun e f => implb (match f_parse f, f_generate f, f_compile f with OOk, OOk, OErr => true | _, _, _ => false end
                     && match e with EValidateCompiled => false | _ => true end)
                    (kind_eqb (snd (run_entry as_coded e f)) KError && negb (evaluates (fst (run_entry as_coded e f)))))).
    vm_compute. reflexivity. }
  rewrite H1, H2, H3 in H.
  assert (He' : match e with EValidateCompiled => false | _ => true end = true) by (destruct e; try reflexivity; congruence).
  rewrite He' in H. simpl in H. apply andb_prop in H as [Hk Hv]. split.
  - destruct (snd (run_entry as_coded e f)); simpl in Hk; try discriminate; reflexivity.
  - now apply negb_true_iff in Hv.
Qed.
