(* ParsePath (anchored) accepts exactly the sentences of the grammar, with the structure the actions
   assign; a rejected string is not a sentence; the tree of an accepted string spans all of it. *)
From ACV Require Import Base.Strs Model.Peg Model.PathGrammar Proofs.PegProofs.

Lemma accept_is_sentence : forall fuel s p,
  parse_path_with true fuel s = Accept p -> Sentence s p.
Proof.
  intros fuel s p H. unfold parse_path_with in H. destruct s as [|c s]; [discriminate|].
  split; [discriminate|].
  destruct (interp path_grammar fuel (PRef "Expression") (trim (String c s))) as [| |t rest] eqn:E; try discriminate.
  cbn [andb] in H. destruct (String.eqb rest "") eqn:Er; cbn [negb] in H; [|discriminate].
  apply String.eqb_eq in Er. subst rest.
  destruct (build (S (tree_depth t)) t) as [q|] eqn:B; [|discriminate]. inversion H; subst q.
  exists t. split; [|exact B]. now apply (interp_sound path_grammar fuel).
Qed.

Lemma sentence_is_accepted : forall s p,
  Sentence s p -> exists n0, forall n, n0 <= n -> parse_path_with true n s = Accept p.
Proof.
  intros s p [Hne [t [He Hb]]]. destruct (interp_complete _ _ _ _ He) as [n0 Hn]. exists n0.
  intros n Hle. unfold parse_path_with. destruct s as [|c s]; [congruence|].
  rewrite (Hn n Hle). cbn [res_of andb]. rewrite String.eqb_refl. cbn [negb]. now rewrite Hb.
Qed.

Lemma reject_is_not_sentence : forall fuel s,
  parse_path_with true fuel s = Reject -> forall p, ~ Sentence s p.
Proof.
  intros fuel s H p [Hne [t [He Hb]]]. unfold parse_path_with in H. destruct s as [|c s]; [congruence|].
  destruct (interp path_grammar fuel (PRef "Expression") (trim (String c s))) as [| |t' rest] eqn:E; try discriminate.
  - apply (interp_sound path_grammar fuel) in E. pose proof (ev_deterministic _ _ _ _ _ He E). discriminate.
  - assert (E' := E). apply (interp_sound path_grammar fuel) in E'.
    pose proof (ev_deterministic _ _ _ _ _ He E') as D. inversion D; subst t' rest.
    cbn [andb] in H. rewrite String.eqb_refl in H. cbn [negb] in H. now rewrite Hb in H.
Qed.

Lemma structure_unique : forall s p q, Sentence s p -> Sentence s q -> p = q.
Proof.
  intros s p q [_ [t [He Hb]]] [_ [t' [He' Hb']]].
  pose proof (ev_deterministic _ _ _ _ _ He He') as D. inversion D; subst t'. congruence.
Qed.

Lemma accepted_spans_everything : forall fuel s p,
  parse_path_with true fuel s = Accept p ->
  exists t, text t = trim s /\ build (S (tree_depth t)) t = Some p.
Proof.
  intros fuel s p H. destruct (accept_is_sentence _ _ _ H) as [_ [t [He Hb]]].
  exists t. split; [|exact Hb]. apply consumed in He. rewrite append_nil_r in He. now symmetry.
Qed.

(* The unanchored reading (the code before the repair) accepts non-sentences. *)
Lemma unanchored_refuted :
  exists s p, parse_path_with false (default_fuel s) s = Accept p /\ ~ Sentence s p.
Proof.
  exists "ex.a ) junk", (Pred "ex.a" false false). split; [vm_compute; reflexivity|].
  apply (reject_is_not_sentence (default_fuel "ex.a ) junk")). vm_compute. reflexivity.
Qed.
