(* Every interleaving: a call whose steps touch only its own state and the atomic counter ends in the state it reaches
   alone when fed the numbers it was handed; those numbers increase strictly and no other call holds any of them. *)
From Coq Require Import Sorted.
From ACV Require Import Base.Strs Model.Interleave.
Local Open Scope list_scope.

Section Proofs.
Variable P : Type.
Notation op := (op P).

Lemma run_cons (w : world P) t o s : run w ((t, o) :: s) = run (step P w t o) s.
Proof. reflexivity. Qed.

Theorem noninterference : forall (s : schedule P) (w : world P) (t : nat),
  priv (run w s) t = alone (priv w t) (program_of t s) (handed (ctr w) t s).
Proof.
  induction s as [|[u o] s IH]; intros w t; [reflexivity|].
  rewrite run_cons, IH. cbn [program_of flat_map fst snd handed].
  destruct o as [f|g]; cbn [step ctr priv]; unfold upd; rewrite (Nat.eqb_sym t u);
    destruct (Nat.eqb u t) eqn:E; cbn [app alone]; try reflexivity.
  - apply Nat.eqb_eq in E. subst u. reflexivity.
  - apply Nat.eqb_eq in E. subst u. reflexivity.
Qed.

Lemma handed_above : forall (s : schedule P) c t, Forall (fun n => c < n) (handed c t s).
Proof.
  induction s as [|[u o] s IH]; intros c t; cbn [handed]; [constructor|].
  destruct o as [f|g]; [apply IH|]. apply Forall_app. split.
  - destruct (Nat.eqb u t); constructor; [lia|constructor].
  - eapply Forall_impl; [|apply (IH (S c) t)]. cbn. intros n Hn. lia.
Qed.

Theorem handed_increasing : forall (s : schedule P) c t, StronglySorted lt (handed c t s).
Proof.
  induction s as [|[u o] s IH]; intros c t; cbn [handed]; [constructor|].
  destruct o as [f|g]; [apply IH|]. destruct (Nat.eqb u t); cbn [app]; [|apply IH].
  constructor; [apply IH|apply handed_above].
Qed.

Theorem handed_disjoint : forall (s : schedule P) c t u n, In n (handed c t s) -> In n (handed c u s) -> t = u.
Proof.
  induction s as [|[v o] s IH]; intros c t u n Ht Hu; [destruct Ht|]. cbn [handed] in Ht, Hu.
  destruct o as [f|g]; [eapply IH; eassumption|].
  apply in_app_or in Ht. apply in_app_or in Hu.
  assert (Hab : forall w, In n (handed (S c) w s) -> S c < n).
  { intros w Hw. pose proof (handed_above s (S c) w) as Hf. rewrite Forall_forall in Hf. now apply Hf. }
  destruct Ht as [Ht|Ht], Hu as [Hu|Hu].
  - destruct (Nat.eqb v t) eqn:E1; [|destruct Ht]. destruct (Nat.eqb v u) eqn:E2; [|destruct Hu].
    apply Nat.eqb_eq in E1, E2. congruence.
  - destruct (Nat.eqb v t); [|destruct Ht]. destruct Ht as [Ht|[]]. apply Hab in Hu. lia.
  - destruct (Nat.eqb v u); [|destruct Hu]. destruct Hu as [Hu|[]]. apply Hab in Ht. lia.
  - eapply IH; eassumption.
Qed.

(* two schedules that give a call the same program: its final state differs only through the numbers it is handed *)
Corollary same_program_same_numbers_same_state : forall (s s' : schedule P) (w w' : world P) t,
  program_of t s = program_of t s' -> priv w t = priv w' t -> handed (ctr w) t s = handed (ctr w') t s' ->
  priv (run w s) t = priv (run w' s') t.
Proof. intros s s' w w' t Hp Hi Hn. rewrite !noninterference, Hp, Hi, Hn. reflexivity. Qed.

(* a call that takes no number at all: its final state is the one it reaches alone, whatever else runs *)
Fixpoint no_gen (prog : list op) : bool :=
  match prog with [] => true | OLocal _ :: r => no_gen r | OGen _ :: _ => false end.
Lemma alone_no_gen : forall prog p nums nums', no_gen prog = true -> alone p prog nums = alone p prog nums'.
Proof.
  induction prog as [|o prog IH]; intros p nums nums' H; [reflexivity|]. destruct o as [f|g]; [|discriminate].
  cbn [alone]. now apply IH.
Qed.
Theorem validation_noninterference : forall (s : schedule P) (w : world P) t,
  no_gen (program_of t s) = true -> priv (run w s) t = alone (priv w t) (program_of t s) [].
Proof. intros s w t H. rewrite noninterference. now apply alone_no_gen. Qed.
End Proofs.

(* ------------------------------------------------------------------ the shared cell *)
(* two calls, each writing its text into the cell and then reading the cell: in the schedule write, write, read, read the
   first call reads the second call's text, which it never does alone *)
Theorem shared_cell_refuted :
  let s := [(0, SWrite 10); (1, SWrite 20); (0, SRead); (1, SRead)] in
  sprogram_of 0 s = [SWrite 10; SRead] /\ sprogram_of 1 s = [SWrite 20; SRead]
  /\ got (srun {| cell := 0; got := fun _ => None |} s) 0 = Some 20
  /\ got (srun {| cell := 0; got := fun _ => None |} [(0, SWrite 10); (0, SRead)]) 0 = Some 10.
Proof. vm_compute. repeat split. Qed.

(* the same two calls with the cell made part of each call's own state (what the code does: the decoder reads a buffer
   built from the call's own argument): an instance of the theorem above - every schedule, the call's own text *)
Definition own_write (v : nat) : op (nat * option nat) := OLocal (fun p => (v, snd p)).
Definition own_read : op (nat * option nat) := OLocal (fun p => (fst p, Some (fst p))).
Theorem private_cell_holds : forall (s : schedule (nat * option nat)) w t v,
  program_of t s = [own_write v; own_read] -> snd (priv (run w s) t) = Some v.
Proof. intros s w t v Hp. rewrite noninterference, Hp. reflexivity. Qed.
Example private_cell_example :
  let s := [(0, own_write 10); (1, own_write 20); (0, own_read); (1, own_read)] in
  program_of 0 s = [own_write 10; own_read] /\ snd (priv (run (Build_world 0 (fun _ => (0, None))) s) 0) = Some 10.
Proof. vm_compute. split; reflexivity. Qed.

(* ------------------------------------------------------------------ histories *)
(* a history = the calls made one after the other through one shared object (a compiled profile): call number k runs its
   whole program, then call k+1 starts.  It is one particular schedule, so a call of a history ends as it does alone. *)
Section Histories.
Variable P : Type.
Fixpoint history_from (k : nat) (calls : list (list (op P))) : schedule P :=
  match calls with
  | [] => []
  | prog :: r => map (fun o => (k, o)) prog ++ history_from (S k) r
  end.
Definition history (calls : list (list (op P))) : schedule P := history_from 0 calls.

Lemma program_of_app t (a b : schedule P) : program_of t (a ++ b) = program_of t a ++ program_of t b.
Proof. unfold program_of. apply flat_map_app. Qed.
Lemma program_of_own t (prog : list (op P)) : program_of t (map (fun o => (t, o)) prog) = prog.
Proof.
  induction prog as [|o prog IH]; [reflexivity|]. cbn [map program_of flat_map fst snd]. rewrite Nat.eqb_refl.
  cbn [app]. f_equal. exact IH.
Qed.
Lemma program_of_other t u (prog : list (op P)) : t <> u -> program_of t (map (fun o => (u, o)) prog) = [].
Proof.
  intros Hne. induction prog as [|o prog IH]; [reflexivity|]. cbn [map program_of flat_map fst snd].
  destruct (Nat.eqb u t) eqn:E; [apply Nat.eqb_eq in E; congruence|]. exact IH.
Qed.
Lemma program_of_history_later : forall calls k t, t < k -> program_of t (history_from k calls) = [].
Proof.
  induction calls as [|prog calls IH]; intros k t Hlt; [reflexivity|]. cbn [history_from].
  rewrite program_of_app, program_of_other by lia. apply IH. lia.
Qed.
Lemma program_of_history : forall calls k i, program_of (k + i) (history_from k calls) = nth i calls [].
Proof.
  induction calls as [|prog calls IH]; intros k i; [destruct i; reflexivity|]. cbn [history_from]. rewrite program_of_app.
  destruct i as [|i].
  - rewrite Nat.add_0_r, program_of_own, program_of_history_later by lia. apply app_nil_r.
  - rewrite program_of_other by lia. cbn [app nth]. replace (k + S i) with (S k + i) by lia. apply IH.
Qed.

Theorem history_call_as_alone : forall (calls : list (list (op P))) (w : world P) i,
  no_gen P (nth i calls []) = true ->
  priv (run w (history calls)) i = alone (priv w i) (nth i calls []) [].
Proof.
  intros calls w i Hn. unfold history. pose proof (program_of_history calls 0 i) as Hp. cbn in Hp.
  rewrite validation_noninterference; rewrite Hp; [reflexivity|exact Hn].
Qed.
End Histories.

(* ------------------------------------------------------------------ same inputs, same observation *)
(* An observation of a call's final state that does not depend on WHICH numbers the call was handed (a report: the generated
   names are internal to the module and never printed) is the same under every schedule and whatever else runs: it depends
   on the call's own program and initial state only. *)
Section Observation.
Variables P O : Type.
Fixpoint gens (prog : list (op P)) : nat :=
  match prog with [] => 0 | OLocal _ :: r => gens r | OGen _ :: r => S (gens r) end.
Lemma handed_length : forall (s : schedule P) c t, List.length (handed c t s) = gens (program_of t s).
Proof.
  induction s as [|[u o] s IH]; intros c t; [reflexivity|]. cbn [handed program_of flat_map fst snd].
  destruct o as [f|g].
  - destruct (Nat.eqb u t); cbn [app gens]; apply IH.
  - rewrite app_length. destruct (Nat.eqb u t); cbn [app gens List.length]; rewrite IH; reflexivity.
Qed.
Definition number_blind (obs : P -> O) (p : P) (prog : list (op P)) : Prop :=
  forall n1 n2, List.length n1 = gens prog -> List.length n2 = gens prog -> obs (alone p prog n1) = obs (alone p prog n2).
Theorem same_inputs_same_observation : forall (obs : P -> O) (prog : list (op P)) (p : P), number_blind obs p prog ->
  forall (s s' : schedule P) (w w' : world P) t t',
  program_of t s = prog -> program_of t' s' = prog -> priv w t = p -> priv w' t' = p ->
  obs (priv (run w s) t) = obs (priv (run w' s') t').
Proof.
  intros obs prog p Hb s s' w w' t t' Hs Hs' Hp Hp'. rewrite !noninterference, Hs, Hs', Hp, Hp'.
  apply Hb; rewrite handed_length; congruence.
Qed.
End Observation.
