(* C01: what the generated policy reports for a formula (Dnf.disp over the parsed rule, evaluated on
   a graph) is the negation of the formula's two-polarity reading [lsat]; where every atom evaluated
   under negative polarity has complementary snippets, [lsat] is the classical reading [csat]; and
   [csat] depends only on what the formula means. For every formula of any depth and width, any graph. *)
From Coq Require Import Permutation.
From ACV Require Import Base.Strs Model.Graph Model.PathGrammar Model.PathSem Model.Dnf Model.Rules.
From ACV Require Import Proofs.DnfProofs Proofs.DnfFuel.

Definition optF (Q : form -> Prop) (e : option form) : Prop := match e with Some e' => Q e' | None => True end.
Section form_ind2.
  Variable Q : form -> Prop.
  Hypothesis HAtom : forall a, Q (FAtom a).
  Hypothesis HAnd : forall l, Forall Q l -> Q (FAnd l).
  Hypothesis HOr : forall l, Forall Q l -> Q (FOr l).
  Hypothesis HNot : forall f, Q f -> Q (FNot f).
  Hypothesis HIf : forall i t e, Q i -> Q t -> optF Q e -> Q (FIf i t e).
  Hypothesis HNested : forall q p f, Q f -> Q (FNested q p f).
  Fixpoint form_ind2 (f : form) : Q f :=
    match f with
    | FAtom a => HAtom a
    | FAnd l => HAnd l ((fix go l := match l return Forall Q l with [] => Forall_nil _ | x :: xs => Forall_cons _ (form_ind2 x) (go xs) end) l)
    | FOr l => HOr l ((fix go l := match l return Forall Q l with [] => Forall_nil _ | x :: xs => Forall_cons _ (form_ind2 x) (go xs) end) l)
    | FNot f => HNot f (form_ind2 f)
    | FIf i t e => HIf i t e (form_ind2 i) (form_ind2 t)
        (match e as e1 return optF Q e1 with Some e0 => form_ind2 e0 | None => I end)
    | FNested q p f => HNested q p f (form_ind2 f)
    end.
End form_ind2.

Lemma existsb_negb {X} (f : X -> bool) l : existsb (fun x => negb (f x)) l = negb (forallb f l).
Proof. induction l as [|x l IH]; simpl; [reflexivity|]. rewrite IH. now destruct (f x), (forallb f l). Qed.
Lemma forallb_negb {X} (f : X -> bool) l : forallb (fun x => negb (f x)) l = negb (existsb f l).
Proof. induction l as [|x l IH]; simpl; [reflexivity|]. rewrite IH. now destruct (f x), (existsb f l). Qed.

Section OnGraph.
Variable g : graph.
Notation rsg := (rs (Fpos g) (Fneg g) (children g)).

Lemma parse_wf : forall f, wf_form f = true -> wf (parse f) = true.
Proof.
  induction f as [a|l IH|l IH|f IH|i t e IHi IHt IHe|q p f IH] using form_ind2; simpl; intros Hw; auto.
  - apply andb_prop in Hw as [Hl Hf]. rewrite map_length, Hl. simpl. rewrite forallb_map'.
    rewrite forallb_forall in *. rewrite Forall_forall in IH. auto.
  - apply andb_prop in Hw as [Hl Hf]. rewrite map_length, Hl. simpl. rewrite forallb_map'.
    rewrite forallb_forall in *. rewrite Forall_forall in IH. auto.
  - apply wf_negate. auto.
  - apply andb_prop in Hw as [Hw He]. apply andb_prop in Hw as [Hi Ht]. rewrite IHi, IHt by assumption.
    destruct e as [e'|]; simpl in *; auto.
Qed.

Lemma parse_sem : forall f, wf_form f = true -> forall pol n, rsg pol (parse f) n = lsat g pol f n.
Proof.
  induction f as [a|l IH|l IH|f IH|i t e IHi IHt IHe|q p f IH] using form_ind2; simpl; intros Hw pol n.
  - destruct pol; reflexivity.
  - apply andb_prop in Hw as [_ Hf]. rewrite forallb_forall in Hf. rewrite Forall_forall in IH.
    destruct pol; simpl; [rewrite forallb_map'; apply forallb_ext_in'|rewrite existsb_map'; apply existsb_ext_in']; intros; apply IH; auto.
  - apply andb_prop in Hw as [_ Hf]. rewrite forallb_forall in Hf. rewrite Forall_forall in IH.
    destruct pol; simpl; [rewrite existsb_map'; apply existsb_ext_in'|rewrite forallb_map'; apply forallb_ext_in']; intros; apply IH; auto.
  - rewrite negate_sem by (apply parse_wf; assumption). apply IH. assumption.
  - apply andb_prop in Hw as [Hw He]. apply andb_prop in Hw as [Hi Ht].
    destruct e as [e'|]; simpl in *; destruct pol; simpl; rewrite ?IHi, ?IHt, ?IHe by assumption; reflexivity.
  - rewrite (filter_ext_in' _ (fun c => negb (lsat g true f c))) by (intros; rewrite IH; auto).
    destruct pol; reflexivity.
Qed.

(* the literal-level statement: no hypothesis on the atoms *)
Theorem reported_literal : forall f n, wf_form f = true ->
  model_reported g (disp_fuel f) f n = Some (negb (lsat g true f n)).
Proof.
  intros f n Hw. unfold model_reported, disp_fuel.
  destruct (disp (S (mu (parse f))) (parse f)) as [gs|] eqn:E.
  - pose proof (@main _ _ _ (Fpos g) (Fneg g) (children g) _ _ _ (or_introl (parse_wf f Hw)) E) as [_ Hr].
    rewrite Hr, parse_sem by assumption. reflexivity.
  - exfalso. revert E. apply fuel_enough. lia.
Qed.

(* more fuel never changes the answer *)
Theorem reported_any_fuel : forall f n fuel b, wf_form f = true ->
  model_reported g fuel f n = Some b -> b = negb (lsat g true f n).
Proof.
  intros f n fuel b Hw. unfold model_reported. destruct (disp fuel (parse f)) as [gs|] eqn:E; [|discriminate].
  pose proof (@main _ _ _ (Fpos g) (Fneg g) (children g) _ _ _ (or_introl (parse_wf f Hw)) E) as [_ Hr].
  intros H. inversion H. rewrite Hr, parse_sem by assumption. reflexivity.
Qed.

(* where negated atoms are complementary, the literal reading is the classical one *)
Theorem lsat_classical : forall f pol n, compl_ok g pol f n = true ->
  lsat g pol f n = if pol then csat g f n else negb (csat g f n).
Proof.
  induction f as [a|l IH|l IH|f IH|i t e IHi IHt IHe|q p f IH] using form_ind2; simpl; intros pol n Hc.
  - destruct pol; [reflexivity|]. unfold atom_compl in Hc. apply Bool.eqb_prop in Hc. rewrite Hc. reflexivity.
  - rewrite forallb_forall in Hc. rewrite Forall_forall in IH. destruct pol.
    + apply forallb_ext_in'. intros x Hx. apply (IH x Hx true n). auto.
    + rewrite <- existsb_negb. apply existsb_ext_in'. intros x Hx. apply (IH x Hx false n). auto.
  - rewrite forallb_forall in Hc. rewrite Forall_forall in IH. destruct pol.
    + apply existsb_ext_in'. intros x Hx. apply (IH x Hx true n). auto.
    + rewrite <- forallb_negb. apply forallb_ext_in'. intros x Hx. apply (IH x Hx false n). auto.
  - rewrite (IH (negb pol) n Hc). destruct pol; simpl; [reflexivity|symmetry; apply negb_involutive].
  - apply andb_prop in Hc as [Hc He]. apply andb_prop in Hc as [Hc Ht]. apply andb_prop in Hc as [Hit Hif].
    rewrite (IHi true n Hit), (IHi false n Hif).
    destruct e as [e'|]; simpl in IHe.
    + destruct pol; rewrite (IHt _ n Ht), (IHe _ n He); destruct (csat g i n), (csat g t n), (csat g e' n); reflexivity.
    + destruct pol; rewrite (IHt _ n Ht); destruct (csat g i n), (csat g t n); reflexivity.
  - rewrite forallb_forall in Hc.
    rewrite (filter_ext_in' _ (fun c => negb (csat g f c))) by (intros c Hin; rewrite (IH true c (Hc c Hin)); reflexivity).
    destruct pol; simpl; [|reflexivity]. now destruct (qtest _ _ _).
Qed.

Theorem reported_classical : forall f n, wf_form f = true -> compl_ok g true f n = true ->
  model_reported g (disp_fuel f) f n = Some (negb (csat g f n)).
Proof. intros f n Hw Hc. rewrite reported_literal by assumption. now rewrite (lsat_classical f true n Hc). Qed.

(* the iff of the property: a validation reports a node iff it is an instance of the target class and
   does not satisfy the formula *)
Theorem validation_reports_iff : forall cls f n, wf_form f = true -> compl_ok g true f (nid n) = true ->
  (validation_reports g cls f n = true <-> (has_type n cls = true /\ csat g f (nid n) = false)).
Proof.
  intros cls f n Hw Hc. unfold validation_reports. change (S (mu (parse f))) with (disp_fuel f). rewrite reported_classical by assumption.
  rewrite andb_true_iff, negb_true_iff. tauto.
Qed.
Theorem results_exactly : forall cls f, wf_form f = true ->
  forall n, In n (validation_results g cls f) <->
            (In n g /\ has_type n cls = true /\ lsat g true f (nid n) = false).
Proof.
  intros cls f Hw n. unfold validation_results, targets. rewrite !filter_In.
  change (S (mu (parse f))) with (disp_fuel f). rewrite reported_literal by assumption. rewrite negb_true_iff. tauto.
Qed.

(* ------------------------------------------------------------------ the verdict depends on the meaning only *)
Lemma csat_perm_and l l' n : Permutation l l' -> csat g (FAnd l) n = csat g (FAnd l') n.
Proof.
  simpl. induction 1; simpl; auto.
  - now rewrite IHPermutation.
  - now destruct (csat g x n), (csat g y n).
  - congruence.
Qed.
Lemma csat_perm_or l l' n : Permutation l l' -> csat g (FOr l) n = csat g (FOr l') n.
Proof.
  simpl. induction 1; simpl; auto.
  - now rewrite IHPermutation.
  - now destruct (csat g x n), (csat g y n).
  - congruence.
Qed.
Lemma csat_flatten_and l1 l2 l3 n : csat g (FAnd (l1 ++ FAnd l2 :: l3)) n = csat g (FAnd (l1 ++ l2 ++ l3)) n.
Proof. simpl. rewrite !forallb_app. simpl. now rewrite andb_assoc. Qed.
Lemma csat_flatten_or l1 l2 l3 n : csat g (FOr (l1 ++ FOr l2 :: l3)) n = csat g (FOr (l1 ++ l2 ++ l3)) n.
Proof. simpl. rewrite !existsb_app. simpl. now rewrite orb_assoc. Qed.
Lemma csat_double_negation f n : csat g (FNot (FNot f)) n = csat g f n.
Proof. simpl. apply negb_involutive. Qed.
Lemma csat_de_morgan_and l n : csat g (FNot (FAnd l)) n = csat g (FOr (map FNot l)) n.
Proof. simpl. rewrite existsb_map'. simpl. now rewrite existsb_negb. Qed.
Lemma csat_de_morgan_or l n : csat g (FNot (FOr l)) n = csat g (FAnd (map FNot l)) n.
Proof. simpl. rewrite forallb_map'. simpl. now rewrite forallb_negb. Qed.
Lemma csat_if_then i t n : csat g (FIf i t None) n = csat g (FOr [FNot i; t]) n.
Proof. simpl. now destruct (csat g i n), (csat g t n). Qed.
Lemma csat_if_then_else i t e n : csat g (FIf i t (Some e)) n = csat g (FAnd [FOr [FNot i; t]; FOr [i; e]]) n.
Proof. simpl. now destruct (csat g i n), (csat g t n), (csat g e n). Qed.
Lemma csat_nested_ext q p f f' n : (forall c, csat g f c = csat g f' c) -> csat g (FNested q p f) n = csat g (FNested q p f') n.
Proof. intros H. simpl. rewrite (filter_ext_in' _ (fun c => negb (csat g f' c))); [reflexivity|]. intros; now rewrite H. Qed.

(* two spellings with the same classical meaning at a node get the same verdict there *)
Theorem same_meaning_same_verdict : forall f f' n,
  wf_form f = true -> wf_form f' = true -> compl_ok g true f n = true -> compl_ok g true f' n = true ->
  csat g f n = csat g f' n ->
  model_reported g (disp_fuel f) f n = model_reported g (disp_fuel f') f' n.
Proof. intros. rewrite !reported_classical by assumption. congruence. Qed.

(* counting atoms are complementary at every node *)
Lemma count_complementary q p k n : atom_compl g (ACount q p k) n = true.
Proof. unfold atom_compl. simpl. now destruct (cq_test q _ k). Qed.
(* a value-quantified atom is complementary where the property has exactly one value on which the
   test is defined *)
Lemma quantified_single test v : test v <> None ->
  Bool.eqb (quantified test false [v]) (negb (quantified test true [v])) = true.
Proof. unfold quantified. simpl. destruct (test v) as [[]|]; intros H; try reflexivity; congruence. Qed.

End OnGraph.

(* The classical statement without the complementarity hypothesis is false of the faithful model
   (defect class D2, known finding neg-value-atom-nonuniform): `not: pattern ^x` on a node without the
   property is not reported although the node satisfies `pattern ^x` vacuously. *)
Definition d2_graph : graph := [ {| nid := "n0"; nprops := [("@type", [VStr "T"])] |} ].
Definition d2_form : form := FNot (FAnd [FAtom (APattern (Pred "p" false false) (PatPrefix "x"))]).
Lemma classical_refuted_d2 :
  wf_form d2_form = true
  /\ model_reported d2_graph (disp_fuel d2_form) d2_form "n0" = Some false
  /\ csat d2_graph d2_form "n0" = false
  /\ compl_ok d2_graph true d2_form "n0" = false.
Proof. vm_compute. repeat split. Qed.
