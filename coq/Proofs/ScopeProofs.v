(* Every rule body the generator writes for a profile without hand-written Rego is safe in the engine's sense, for rules of any
   depth and width, nested constraints included: each statement needs only variables bound by an earlier statement of its own
   body or of an enclosing one (comprehension bodies are local scopes).  The statements are the reading [cs_du] kept next to the
   text in Model/Compile.v. *)
From Coq Require Import List Bool Arith Lia Permutation.
Import ListNotations.
From ACV Require Import Base.Strs Model.Dnf Model.Report Model.Names Model.RuleGen Model.Compile Proofs.NamesProofs Proofs.RuleGenProofs Proofs.CompileProofs.

Local Open Scope list_scope.
Definition env_after (env : list string) (l : list stmt) : list string := rev (map bound l) ++ env.

Lemma all_in_spec us env : all_in us env = true <-> (forall u, In u us -> In u env).
Proof.
  unfold all_in. rewrite forallb_forall. split; intros H u Hu.
  - apply in_strs_In, H, Hu.
  - apply in_strs_In, H, Hu.
Qed.

Lemma env_after_cons env s l : env_after env (s :: l) = env_after (bound s :: env) l.
Proof. unfold env_after. cbn [map rev]. now rewrite <- app_assoc. Qed.
Lemma env_after_app env a b : env_after env (a ++ b) = env_after (env_after env a) b.
Proof. unfold env_after. rewrite map_app, rev_app_distr, app_assoc. reflexivity. Qed.
Lemma env_after_incl env l : incl env (env_after env l).
Proof. unfold env_after. apply incl_appr, incl_refl. Qed.
Lemma env_after_bound env l v : In v (map bound l) -> In v (env_after env l).
Proof. unfold env_after. intros H. apply in_or_app. left. now apply -> in_rev. Qed.

Lemma safe_list_app : forall a env b, safe_list env (a ++ b) = safe_list env a && safe_list (env_after env a) b.
Proof.
  induction a as [|s a IH]; intros env b; cbn [app safe_list]; [reflexivity|].
  rewrite IH, env_after_cons, andb_assoc. reflexivity.
Qed.

Lemma safe_in_compr v body out env :
  safe_in (Compr v body out) env = safe_list env body && all_in out (env_after env body).
Proof.
  cbn [safe_in]. revert env. induction body as [|s r IH]; intros env; cbn [safe_list].
  - reflexivity.
  - rewrite IH, env_after_cons, andb_assoc. reflexivity.
Qed.

Lemma safe_in_bind v needs env : safe_in (Bind v needs) env = all_in needs env.
Proof. reflexivity. Qed.

(* flat readings *)
Lemma safe_flat : forall l env, safe_list env (flat_du l) = safe_from env l.
Proof.
  induction l as [|[d us] l IH]; intros env; cbn [flat_du map safe_list safe_from safe_in bound fst snd]; [reflexivity|].
  unfold flat_du in IH. rewrite IH. reflexivity.
Qed.
Lemma env_after_flat env l : env_after env (flat_du l) = rev (map fst l) ++ env.
Proof. unfold env_after, flat_du. rewrite map_map. reflexivity. Qed.
Lemma safe_from_app : forall a env b, safe_from env (a ++ b) = safe_from env a && safe_from (rev (map fst a) ++ env) b.
Proof.
  induction a as [|[d us] a IH]; intros env b; cbn [app safe_from map rev fst]; [reflexivity|].
  rewrite IH, <- app_assoc, andb_assoc. reflexivity.
Qed.

(* a result is well-scoped over the node variable x *)
Definition okc (x : string) (s : csimple) : Prop :=
  cs_node s = x /\
  forall env, In x env -> safe_list env (cs_du s) = true /\ forall u, In u (cs_uses s) -> In u (env_after env (cs_du s)).

(* from the continuation-style statement of RuleGenProofs *)
Lemma ok_okc x sn rules o : ok x sn -> okc x (of_snippet sn x rules o).
Proof.
  intros Hok. split; [reflexivity|]. intros env Hx. cbn [of_snippet cs_du cs_uses].
  rewrite safe_flat, env_after_flat.
  pose proof (Hok env [("", sn_value_uses sn)] Hx) as H.
  assert (Hs : safe_from env (sn_du sn ++ [("", sn_value_uses sn)]) = true).
  { apply H. intros env' Hinc Hu. cbn [safe_from]. rewrite andb_true_r. apply forallb_forall. intros u Hin. apply in_strs_In, Hu, Hin. }
  rewrite safe_from_app in Hs. apply andb_prop in Hs as [H1 H2]. split; [exact H1|].
  cbn [safe_from] in H2. rewrite andb_true_r in H2. rewrite forallb_forall in H2. intros u Hu. apply in_strs_In, H2, Hu.
Qed.

Lemma in_cons_neq {X} (a b : X) l : In a l -> In a (b :: l).
Proof. now right. Qed.

Definition no_rego (a : catom) : Prop := match ca_kind a with KRego _ _ => False | _ => True end.

Lemma gen_atom_okc neg a c : no_rego a -> okc (ca_var a) (fst (gen_atom neg a c)).
Proof.
  unfold no_rego, gen_atom. destruct (ca_kind a) eqn:E; intros Hn; cbn [fresh fst]; try contradiction.
  - apply ok_okc, count_snippet_ok.
  - apply ok_okc, pattern_snippet_ok.
  - apply ok_okc, in_snippet_ok.
  - apply ok_okc, contains_snippet_ok.
  - apply ok_okc, numeric_snippet_ok.
  - apply ok_okc, cmp_snippet_ok.
  - apply ok_okc, datatype_snippet_ok.
  - (* uniqueValues *)
    split; [reflexivity|]. intros env Hx. cbn [cs_du cs_uses]. split; [|intros u []].
    cbn [safe_list bound]. rewrite !safe_in_compr. cbn [safe_list bound]. rewrite !safe_in_compr.
    cbn [safe_list bound env_after map rev app]. rewrite !safe_in_bind.
    rewrite !andb_true_iff. repeat split; apply all_in_spec; intros u Hu; cbn [In] in Hu;
      repeat (destruct Hu as [<-|Hu]; [cbn [In]; tauto|]); try contradiction.
Qed.

(* ---- the lines of a branch *)
Lemma body_safe x : forall branch i env, In x env -> Forall (okc x) branch ->
  safe_list env (body_du i branch) = true
  /\ (forall j, i <= j < i + List.length branch -> In (result_var j) (env_after env (body_du i branch))).
Proof.
  induction branch as [|s r IH]; intros i env Hx Hok; cbn [body_du].
  - split; [reflexivity|]. cbn. intros j Hj. lia.
  - inversion Hok as [|? ? [Hnode Hs] Hr]; subst. destruct (Hs env Hx) as [H1 H2].
    rewrite safe_list_app, H1. cbn [andb app safe_list safe_in bound].
    assert (Hx1 : In (cs_node s) (env_after env (cs_du s))) by (apply env_after_incl, Hx).
    destruct (IH (S i) (result_var i :: env_after env (cs_du s)) (in_cons_neq _ _ _ Hx1) Hr) as [H3 H4].
    split.
    + rewrite H3, andb_true_r. apply all_in_spec. intros u [<-|Hu]; [exact Hx1|apply H2, Hu].
    + intros j Hj. rewrite env_after_app. cbn [app]. rewrite env_after_cons. cbn [bound List.length] in *.
      destruct (Nat.eq_dec j i) as [->|Hne].
      * apply env_after_incl. now left.
      * apply H4. lia.
Qed.

Lemma message_flat_safe x m env : In x env ->
  safe_from env (message_du x m) = true /\ In "message"%string (rev (map fst (message_du x m)) ++ env).
Proof.
  intros Hx.
  assert (Hs : safe_from env (message_du x m ++ [(""%string, ["message"%string])]) = true).
  { apply message_safe; [exact Hx|]. intros env' _ Hm. cbn [safe_from forallb]. rewrite andb_true_r, andb_true_r. apply in_strs_In, Hm. }
  rewrite safe_from_app in Hs. apply andb_prop in Hs as [H1 H2]. split; [exact H1|].
  cbn [safe_from forallb] in H2. rewrite !andb_true_r in H2. apply in_strs_In, H2.
Qed.

Lemma wrap_safe x m matches : forall branch env, In x env -> Forall (okc x) branch ->
  safe_list env (wrap_du m branch matches x) = true /\ In matches (env_after env (wrap_du m branch matches x))
  /\ incl env (env_after env (wrap_du m branch matches x)).
Proof.
  intros branch env Hx Hok. unfold wrap_du.
  destruct (body_safe x branch 0 env Hx Hok) as [H1 H2].
  assert (Hx1 : In x (env_after env (body_du 0 branch))) by (apply env_after_incl, Hx).
  destruct (message_flat_safe x m _ Hx1) as [H3 H4].
  rewrite safe_list_app, H1. cbn [andb]. rewrite safe_list_app, safe_flat, H3. cbn [andb safe_list safe_in bound].
  rewrite env_after_flat. split; [|split].
  - rewrite andb_true_r. apply all_in_spec. intros u [<-|[<-|Hu]].
    + exact H4.
    + apply in_or_app. right. exact Hx1.
    + apply in_map_iff in Hu as [j [<- Hj]]. apply in_seq in Hj. apply in_or_app. right. apply H2. lia.
  - rewrite !env_after_app. apply env_after_bound. now left.
  - rewrite !env_after_app. intros u Hu. apply env_after_incl, env_after_incl, env_after_incl, Hu.
Qed.

(* ---- nested constraints *)
Ltac in_tac := cbn [In]; tauto.

Lemma nested_branches_safe pl child acc : forall branches i env,
  In pl env -> In (acc ++ dec i)%string env ->
  Forall (Forall (okc child)) branches ->
  let du := flat_map (fun ib : nat * list csimple => nested_branch_du pl child acc (fst ib) (snd ib)) (combine (seq i (List.length branches)) branches) in
  safe_list env du = true
  /\ In (acc ++ dec (i + List.length branches))%string (env_after env du)
  /\ (forall j, i <= j < i + List.length branches -> In (branch_var pl j ++ "_errors")%string (env_after env du))
  /\ incl env (env_after env du).
Proof.
  induction branches as [|b bs IH]; intros i env Hpl Hacc Hok; cbn [List.length seq combine flat_map].
  - cbn [safe_list env_after map rev app]. rewrite Nat.add_0_r. repeat split; auto.
    + intros j Hj. lia.
    + apply incl_refl.
  - inversion Hok as [|? ? Hb Hbs]; subst. cbn [fst snd]. unfold nested_branch_du at 1.
    set (brv := branch_var pl i). set (bre := (brv ++ "_errors")%string).
    set (inner := (brv ++ "_inner_error")%string). set (errv := (brv ++ "_error")%string).
    destruct (wrap_safe child 0 inner b (child :: env) (in_eq _ _) Hb) as [W1 [W2 W3]].
    set (X := wrap_du 0 b inner child) in *.
    set (env4 := (acc ++ dec (S i))%string :: (bre ++ "_errors")%string :: bre :: brv :: env).
    assert (Hpl4 : In pl env4) by (unfold env4; do 4 right; exact Hpl).
    assert (Hacc4 : In (acc ++ dec (S i))%string env4) by (unfold env4; now left).
    destruct (IH (S i) env4 Hpl4 Hacc4 Hbs) as [I1 [I2 [I3 I4]]].
    cbn [app]. cbn [safe_list bound]. rewrite !safe_in_compr, safe_in_bind.
    cbn [safe_list bound]. rewrite !safe_in_bind. rewrite safe_list_app. cbn [safe_list bound]. rewrite safe_in_bind.
    fold env4. fold env4 in I1.
    assert (S1 : all_in [pl] env = true) by (apply all_in_spec; intros u [<-|[]]; exact Hpl).
    assert (S2 : all_in [child; inner] (env_after (child :: env) X) = true).
    { apply all_in_spec. intros u [<-|[<-|[]]]; [apply W3; now left|exact W2]. }
    assert (S3 : all_in [errv] (env_after env (Bind child [pl] :: X ++ [Bind errv [child; inner]])) = true).
    { apply all_in_spec. intros u [<-|[]]. apply env_after_bound. cbn [map]. right. rewrite map_app. apply in_or_app. right. now left. }
    rewrite S1, W1, S2, S3. cbn [andb].
    assert (S4 : all_in [brv] (brv :: env) = true) by (apply all_in_spec; intros u [<-|[]]; now left).
    assert (S5 : all_in ["n"%string] ("n"%string :: brv :: env) = true) by (apply all_in_spec; intros u [<-|[]]; now left).
    assert (S6 : all_in ["nodeId"%string] (env_after (brv :: env) [Bind "n" [brv]; Bind "nodeId" ["n"%string]]) = true)
      by (apply all_in_spec; intros u [<-|[]]; cbn [env_after map rev app bound]; in_tac).
    assert (S7 : all_in [brv] (bre :: brv :: env) = true) by (apply all_in_spec; intros u [<-|[]]; in_tac).
    assert (S8 : all_in ["n"%string] ("n"%string :: bre :: brv :: env) = true) by (apply all_in_spec; intros u [<-|[]]; now left).
    assert (S9 : all_in ["node"%string] (env_after (bre :: brv :: env) [Bind "n" [brv]; Bind "node" ["n"%string]]) = true)
      by (apply all_in_spec; intros u [<-|[]]; cbn [env_after map rev app bound]; in_tac).
    assert (S10 : all_in [(acc ++ dec i)%string; (bre ++ "_errors")%string] ((bre ++ "_errors")%string :: bre :: brv :: env) = true).
    { apply all_in_spec. intros u [<-|[<-|[]]]; [do 3 right; exact Hacc|now left]. }
    rewrite S4, S5, S6, S7, S8, S9, S10, I1. cbn [andb].
    assert (Eafter : forall F', env_after env (nested_branch_du pl child acc i b ++ F') = env_after env4 F').
    { intros F'. rewrite env_after_app. reflexivity. }
    rewrite !Eafter. repeat split.
    + replace (i + S (List.length bs)) with (S i + List.length bs) by lia. exact I2.
    + intros j Hj. destruct (Nat.eq_dec j i) as [->|Hne].
      * apply I4. unfold env4. right. right. now left.
      * apply I3. lia.
    + intros u Hu. apply I4. unfold env4. do 4 right. exact Hu.
Qed.

Lemma dec_0 : dec 0 = "0"%string.
Proof. reflexivity. Qed.

Lemma nested_okc neg qn p rule results :
  Forall (fun t => Forall (okc (cn_child p)) (t_branch t)) results ->
  okc (cn_parent p) (nested_simple neg qn p rule results).
Proof.
  intros Hok. split; [reflexivity|]. intros env Hx. cbn [nested_simple cs_du cs_uses]. unfold nested_du.
  set (child := cn_child p). set (pl := plural child). set (acc := (child ++ "_errorAcc")%string).
  set (agg := (pl ++ "_error_node_variables_agg")%string).
  rewrite map_length.
  set (k := List.length results).
  set (env2 := (acc ++ "0")%string :: pl :: env).
  assert (Hb : Forall (Forall (okc child)) (map t_branch results)).
  { apply Forall_forall. intros b Hb. apply in_map_iff in Hb as [t [<- Ht]]. rewrite Forall_forall in Hok. apply Hok, Ht. }
  assert (Hpl2 : In pl env2) by (unfold env2; right; now left).
  assert (Hacc2 : In (acc ++ dec 0)%string env2) by (rewrite dec_0; unfold env2; now left).
  pose proof (nested_branches_safe pl child acc (map t_branch results) 0 env2 Hpl2 Hacc2 Hb) as H.
  rewrite map_length in H. fold k in H. cbn zeta in H. destruct H as [N1 [N2 [N3 N4]]].
  set (F := flat_map (fun ib : nat * list csimple => nested_branch_du pl child acc (fst ib) (snd ib)) (combine (seq 0 k) (map t_branch results))) in *.
  cbn [app safe_list bound]. rewrite !safe_in_bind. fold env2. rewrite safe_list_app, N1. cbn [andb safe_list bound]. rewrite !safe_in_bind.
  cbn [Nat.add] in N2.
  assert (S1 : all_in [cn_parent p] env = true) by (apply all_in_spec; intros u [<-|[]]; exact Hx).
  assert (S2 : all_in [] (pl :: env) = true) by reflexivity.
  assert (S3 : all_in [(acc ++ dec k)%string] (env_after env2 F) = true) by (apply all_in_spec; intros u [<-|[]]; exact N2).
  assert (S4 : all_in (map (fun i => (branch_var pl i ++ "_errors")%string) (seq 0 k)) (acc :: env_after env2 F) = true).
  { apply all_in_spec. intros u Hu. apply in_map_iff in Hu as [j [<- Hj]]. apply in_seq in Hj. right. apply N3. lia. }
  assert (S5 : all_in [agg; pl] (agg :: acc :: env_after env2 F) = true).
  { apply all_in_spec. intros u [<-|[<-|[]]]; [now left|]. right. right. apply N4. exact Hpl2. }
  rewrite S1, S2, S3, S4, S5. split; [reflexivity|].
  intros u Hu.
  assert (E : env_after env (Bind pl [cn_parent p] :: Bind (acc ++ "0") [] :: F ++ [Bind acc [(acc ++ dec k)%string]; Bind agg (map (fun i => (branch_var pl i ++ "_errors")%string) (seq 0 k)); Bind "" [agg; pl]])
              = ""%string :: agg :: acc :: env_after env2 F).
  { rewrite !env_after_cons. fold env2. rewrite env_after_app. reflexivity. }
  rewrite E. destruct Hu as [<-|[<-|[<-|[]]]].
  - right. now left.
  - do 3 right. apply N4. exact Hpl2.
  - right. right. now left.
Qed.

(* ---- rules whose constraints all speak about the variable in scope, without hand-written Rego: what Elab produces for a
   declarative profile *)
Fixpoint scoped (v : string) (r : crule) {struct r} : Prop :=
  match r with
  | RAtom _ a => ca_var a = v /\ no_rego a
  | RAnd _ l => (fix go (l : list crule) : Prop := match l with [] => True | x :: xs => scoped v x /\ go xs end) l
  | ROr _ l => (fix go (l : list crule) : Prop := match l with [] => True | x :: xs => scoped v x /\ go xs end) l
  | RCond _ i t e => scoped v i /\ scoped v t /\ match e with Some e' => scoped v e' | None => True end
  | RNested _ _ p body => cn_parent p = v /\ scoped (cn_child p) body
  end.
Lemma scoped_list v l :
  (fix go (l : list crule) : Prop := match l with [] => True | x :: xs => scoped v x /\ go xs end) l <-> Forall (scoped v) l.
Proof.
  induction l as [|x l IH].
  - split; intros _; [constructor|exact I].
  - split; intros H.
    + destruct H as [H1 H2]. constructor; [exact H1|apply IH, H2].
    + inversion H; subst. split; [assumption|apply IH; assumption].
Qed.
Lemma scoped_and v b l : scoped v (RAnd b l) <-> Forall (scoped v) l.
Proof. apply scoped_list. Qed.
Lemma scoped_or v b l : scoped v (ROr b l) <-> Forall (scoped v) l.
Proof. apply scoped_list. Qed.

Lemma scoped_negate : forall r v, scoped v r -> scoped v (negate r).
Proof.
  induction r using rule_ind2; intros v Hs.
  - exact Hs.
  - cbn [negate]. apply scoped_or. apply scoped_and in Hs. rewrite Forall_forall in *.
    intros x Hx. apply in_map_iff in Hx as [y [<- Hy]]. apply H; auto.
  - cbn [negate]. apply scoped_and. apply scoped_or in Hs. rewrite Forall_forall in *.
    intros x Hx. apply in_map_iff in Hx as [y [<- Hy]]. apply H; auto.
  - cbn [scoped] in Hs. destruct Hs as [Hi [Ht He]]. cbn [negate]. destruct e as [e'|].
    + destruct n.
      * cbn [scoped]. auto.
      * apply scoped_or. repeat constructor; try (apply scoped_and; repeat constructor); auto.
    + cbn [scoped]. auto.
  - exact Hs.
Qed.

Definition all_okc (v : string) (ts : list tres) : Prop := Forall (fun t => Forall (okc v) (t_branch t)) ts.

Lemma gen_all_okc v (g : crule -> nat -> option (list tres * nat)) :
  (forall r c ts c', scoped v r -> g r c = Some (ts, c') -> all_okc v ts) ->
  forall l c rs c', Forall (scoped v) l -> gen_all g l c = Some (rs, c') -> Forall (all_okc v) rs.
Proof.
  intros H. induction l as [|r l IH]; intros c rs c' Hs Hg; cbn [gen_all] in Hg.
  - inversion Hg; subst. constructor.
  - inversion Hs as [|? ? Hr Hl]; subst.
    destruct (g r c) as [[x c1]|] eqn:E; [|discriminate].
    destruct (gen_all g l c1) as [[y c2]|] eqn:E2; [|discriminate]. inversion Hg; subst.
    constructor; [eapply H; eauto|eapply IH; eauto].
Qed.

Lemma expand_step_okc v acc bs :
  Forall (Forall (okc v)) acc -> Forall (Forall (okc v)) bs -> Forall (Forall (okc v)) (t_expand_step acc bs).
Proof.
  intros Ha Hb. unfold t_expand_step. apply Forall_forall. intros x Hx.
  apply in_flat_map in Hx as [b [Hb' Hx]]. apply in_map_iff in Hx as [a [<- Ha']].
  rewrite Forall_forall in Ha, Hb. apply Forall_app. split; auto.
Qed.
Lemma expand_okc v bss : forall acc,
  Forall (Forall (okc v)) acc -> Forall (Forall (Forall (okc v))) bss -> Forall (Forall (okc v)) (fold_left t_expand_step bss acc).
Proof.
  induction bss as [|bs bss IH]; intros acc Ha Hb; cbn [fold_left]; [exact Ha|].
  inversion Hb; subst. apply IH; [apply expand_step_okc|]; assumption.
Qed.

Lemma simples_okc v rs : Forall (all_okc v) rs -> Forall (okc v) (t_simples rs).
Proof.
  intros H. unfold t_simples. apply Forall_forall. intros s Hs.
  apply in_flat_map in Hs as [r [Hr Hs]]. apply in_flat_map in Hs as [t [Ht Hs]].
  rewrite Forall_forall in H. specialize (H r Hr). unfold all_okc in H. rewrite Forall_forall in H. specialize (H t Ht).
  destruct t as [s'|b]; [|destruct Hs]. destruct Hs as [<-|[]]. inversion H; assumption.
Qed.
Lemma branchsets_okc v rs : Forall (all_okc v) rs -> Forall (Forall (Forall (okc v))) (t_branchsets rs).
Proof.
  intros H. unfold t_branchsets. apply Forall_forall. intros bs Hbs.
  apply in_flat_map in Hbs as [r [Hr Hbs]].
  rewrite Forall_forall in H. specialize (H r Hr). unfold all_okc in H.
  assert (Hall : Forall (Forall (okc v)) (flat_map (fun t => match t with TBranch b => [b] | TSimple _ => [] end) r)).
  { apply Forall_forall. intros b Hb. apply in_flat_map in Hb as [t [Ht Hb]]. rewrite Forall_forall in H. specialize (H t Ht).
    destruct t as [s|b']; [destruct Hb|]. destruct Hb as [<-|[]]. exact H. }
  destruct (flat_map _ r) as [|b0 bs0]; [destruct Hbs|]. destruct Hbs as [<-|[]]. exact Hall.
Qed.

Theorem gen_okc : forall fuel r c ts c' v, scoped v r -> gen fuel r c = Some (ts, c') -> all_okc v ts.
Proof.
  induction fuel as [|fuel IH]; intros r c ts c' v Hs Hg; [discriminate|].
  destruct r as [n a|b l|b l|b i t e|b q p r]; cbn [gen] in Hg.
  - destruct Hs as [<- Hn]. pose proof (gen_atom_okc n a c Hn) as Ho. destruct (gen_atom n a c) as [s c1]. inversion Hg; subst.
    cbn [fst] in Ho. constructor; [|constructor]. cbn [t_branch]. constructor; [exact Ho|constructor].
  - destruct b.
    + eapply IH; [|exact Hg]. apply (scoped_negate (RAnd true l)). exact Hs.
    + destruct (gen_all (gen fuel) (sort_rules l) c) as [[rs c1]|] eqn:E; [|discriminate]. inversion Hg; subst.
      apply scoped_and in Hs.
      assert (Hs' : Forall (scoped v) (sort_rules l)).
      { rewrite Forall_forall in *. intros x Hx. apply Hs. eapply Permutation_in; [apply sort_rules_perm|exact Hx]. }
      pose proof (gen_all_okc v (gen fuel) (fun r c ts c' H1 H2 => IH r c ts c' v H1 H2) _ _ _ _ Hs' E) as Hall.
      unfold all_okc. apply Forall_forall. intros t Ht. apply in_map_iff in Ht as [t0 [<- Ht0]]. cbn [t_branch].
      apply in_concat in Ht0 as [r0 [Hr0 Ht0]]. rewrite Forall_forall in Hall. specialize (Hall r0 Hr0).
      unfold all_okc in Hall. rewrite Forall_forall in Hall. apply Hall, Ht0.
  - destruct b.
    + eapply IH; [|exact Hg]. apply (scoped_negate (ROr true l)). exact Hs.
    + destruct (gen_all (gen fuel) (sort_rules l) c) as [[rs c1]|] eqn:E; [|discriminate]. inversion Hg; subst.
      apply scoped_or in Hs.
      assert (Hs' : Forall (scoped v) (sort_rules l)).
      { rewrite Forall_forall in *. intros x Hx. apply Hs. eapply Permutation_in; [apply sort_rules_perm|exact Hx]. }
      pose proof (gen_all_okc v (gen fuel) (fun r c ts c' H1 H2 => IH r c ts c' v H1 H2) _ _ _ _ Hs' E) as Hall.
      unfold all_okc. apply Forall_forall. intros t Ht. apply in_map_iff in Ht as [b0 [<- Hb0]]. cbn [t_branch].
      assert (Hx : Forall (Forall (okc v)) (fold_left t_expand_step (t_branchsets rs) [t_simples rs])).
      { apply expand_okc; [constructor; [apply simples_okc, Hall|constructor]|apply branchsets_okc, Hall]. }
      rewrite Forall_forall in Hx. apply Hx, Hb0.
  - cbn [scoped] in Hs. destruct Hs as [Hi [Ht He]].
    destruct (gen fuel (ROr b [negate i; t]) c) as [[a c1]|] eqn:E1; [|discriminate].
    assert (H1 : all_okc v a).
    { eapply IH; [|exact E1]. apply scoped_or. repeat constructor; [apply scoped_negate, Hi|exact Ht]. }
    destruct e as [e'|].
    + destruct (gen fuel (ROr b [i; e']) c1) as [[b' c2]|] eqn:E2; [|discriminate]. inversion Hg; subst.
      assert (H2 : all_okc v b').
      { eapply IH; [|exact E2]. apply scoped_or. repeat constructor; assumption. }
      unfold all_okc in *. apply Forall_app. split; assumption.
    + inversion Hg; subst. exact H1.
  - cbn [scoped] in Hs. destruct Hs as [<- Hb]. cbn [fresh] in Hg.
    destruct (gen fuel r (S c)) as [[rs c2]|] eqn:E; [|discriminate]. inversion Hg; subst.
    constructor; [|constructor]. cbn [t_branch]. constructor; [|constructor]. apply nested_okc. eapply IH; [exact Hb|exact E].
Qed.

(* ---- the body of a top-level rule: target_class binds x, then the branch *)
Definition rule_body_du (x : string) (m : nat) (b : list csimple) : list stmt := Bind x [] :: wrap_du m b "matches" x.

Theorem rule_bodies_safe : forall fuel r c ts c' x m,
  scoped x r -> gen fuel r c = Some (ts, c') ->
  forall t, In t ts -> safe_list [] (rule_body_du x m (t_branch t)) = true.
Proof.
  intros fuel r c ts c' x m Hs Hg t Ht.
  pose proof (gen_okc fuel r c ts c' x Hs Hg) as Hall. unfold all_okc in Hall. rewrite Forall_forall in Hall. specialize (Hall t Ht).
  unfold rule_body_du. cbn [safe_list safe_in bound all_in forallb andb].
  apply (wrap_safe x m "matches" (t_branch t) [x] (in_eq _ _) Hall).
Qed.

(* ---- the premise as a test: the run evaluates it on the rule the parser model builds for every compared profile *)
Lemma scoped_b_sound : forall r v, scoped_b v r = true -> scoped v r.
Proof.
  induction r using rule_ind2; intros v Hb; cbn [scoped_b scoped] in *.
  - apply andb_prop in Hb as [H1 H2]. apply String.eqb_eq in H1. split; [exact H1|].
    unfold no_rego, no_rego_b in *. destruct (ca_kind a); try exact I. discriminate.
  - induction H as [|x l Hx Hl IHl]; [exact I|]. apply andb_prop in Hb as [H1 H2]. split; [apply Hx, H1|apply IHl, H2].
  - induction H as [|x l Hx Hl IHl]; [exact I|]. apply andb_prop in Hb as [H1 H2]. split; [apply Hx, H1|apply IHl, H2].
  - apply andb_prop in Hb as [Hb He]. apply andb_prop in Hb as [Hi Ht]. repeat split; auto.
    destruct e as [e'|]; [|exact I]. apply H, He.
  - apply andb_prop in Hb as [H1 H2]. apply String.eqb_eq in H1. split; [exact H1|apply IHr, H2].
Qed.

From ACV Require Import Model.Yaml Model.ProfileParser Model.Elab.

Theorem declarative_profile_bodies_safe : forall p v fuel c ts c' m,
  profile_scoped p = true -> In v (cp_vals p) -> gen fuel (cv_rule v) c = Some (ts, c') ->
  forall t, In t ts -> safe_list [] (rule_body_du (cv_var v) m (t_branch t)) = true.
Proof.
  intros p v fuel c ts c' m Hp Hv Hg t Ht. unfold profile_scoped in Hp. rewrite forallb_forall in Hp.
  eapply rule_bodies_safe; [apply scoped_b_sound, Hp, Hv|exact Hg|exact Ht].
Qed.
