(* C12 (completeness of results, parser side): the message of a parsed validation is empty only when the profile
   itself says `message: ""`; any other way of writing or omitting the message gives "Validation error". *)
From ACV Require Import Base.Strs Model.Graph Model.Rules Model.Report Model.Engine Model.Yaml Model.ProfileParser.
From ACV Require Import Proofs.ParserCongruence.
Local Open Scope list_scope.

Lemma map_p_In {X Y} (f : X -> presult Y) l r y : map_p f l = POk r -> In y r -> exists x, In x l /\ f x = POk y.
Proof.
  revert r. induction l as [|x l IH]; cbn [map_p]; intros r H Hy; [inversion H; subst; destruct Hy|].
  destruct (f x) as [a| |] eqn:E; cbn [pbind] in H; try discriminate. destruct (map_p f l) as [b| |]; cbn [pbind] in H; try discriminate.
  inversion H; subst. destruct Hy as [->|Hy]; [exists x; simpl; auto|]. destruct (IH b eq_refl Hy) as [x' [H1 H2]]. exists x'. simpl; auto.
Qed.

Definition message_of (v : ynode) : string :=
  match yget "message" v with Some m => match y_string m with Some s => s | None => "Validation error"%string end | None => "Validation error"%string end.

Lemma y_string_scalar t a : y_string (YScalar t a) = if String.eqb t "!!str" then Some a else None.
Proof.
  destruct (String.eqb_spec t "!!str") as [->|Hne]; [reflexivity|]. unfold y_string.
  repeat (match goal with |- context [match ?x with _ => _ end] => is_var x; destruct x; try reflexivity end).
  exfalso. now apply Hne.
Qed.

Lemma message_of_empty v : message_of v = ""%string -> yget "message" v = Some (YScalar "!!str" "").
Proof.
  unfold message_of. destruct (yget "message" v) as [m|]; [|discriminate].
  destruct m as [t a|l|l]; try (simpl; discriminate).
  rewrite y_string_scalar. destruct (String.eqb_spec t "!!str") as [->|Hne]; [|discriminate]. now intros ->.
Qed.

Lemma parse_def_message ctx k v d : parse_def ctx (k, v) = POk d -> v_name d = k /\ v_msg d = message_of v.
Proof.
  unfold parse_def, message_of. destruct (yget "targetClass" v); try discriminate. destruct (y_string y); try discriminate.
  destruct (expand_compact ctx s); try discriminate. destruct (parse_expr ctx (ysize v) v); simpl; try discriminate.
  intros H. inversion H. simpl. auto.
Qed.

Theorem parsed_message_empty_only_if_written : forall defaults doc p, parse_profile defaults doc = POk p ->
  forall d, In d (p_defs p) -> v_msg d = ""%string ->
  exists vals v, yget "validations" doc = Some (YMap vals) /\ In (v_name d, v) vals /\ yget "message" v = Some (YScalar "!!str" "").
Proof.
  intros defaults doc p H d Hd Hm. destruct doc as [t a|l|l]; try discriminate.
  rewrite parse_profile_unfold in H.
  destruct (yget "profile" (YMap l)) as [n|]; try discriminate. destruct (y_string n); try discriminate.
  destruct (present "rego_extensions" (YMap l)); try discriminate.
  destruct (prefixes_of (YMap l)) as [pfx| |]; cbn [pbind] in H; try discriminate. cbv zeta in H.
  destruct (yget "validations" (YMap l)) as [vm|]; try discriminate. destruct vm as [| vals |]; try discriminate.
  match type of H with pbind (map_p ?f ?used) _ = _ => destruct (map_p f used) as [defs| |] eqn:E; cbn [pbind] in H; try discriminate end.
  inversion H; subst p. simpl in Hd.
  destruct (map_p_In _ _ _ _ E Hd) as [[k v] [Hin Hf]]. apply filter_In in Hin as [Hin _].
  destruct (parse_def_message _ _ _ _ Hf) as [En Em]. exists vals, v. split; [reflexivity|]. split; [now rewrite En|].
  apply message_of_empty. now rewrite <- Em.
Qed.

(* non-vacuity: the default is taken for a missing, null, numeric, boolean, sequence or mapping message *)
Example default_message_examples :
  map message_of [YMap []; YMap [("message"%string, YScalar "!!null" "")]; YMap [("message"%string, YScalar "!!int" "404")];
                  YMap [("message"%string, YScalar "!!bool" "false")]; YMap [("message"%string, YSeq [])]; YMap [("message"%string, YMap [])];
                  YMap [("message"%string, YScalar "!!str" "written")]]
  = ["Validation error"; "Validation error"; "Validation error"; "Validation error"; "Validation error"; "Validation error"; "written"]%string.
Proof. reflexivity. Qed.
