(* C12: every tree of typed nodes that error() / trace() of the preamble can build - any number of trace entries
   per result, any number of sub-results per trace value, any depth, each result and trace with or without a
   location node - satisfies the shape condition of the id-uniqueness theorem; and every branch the generator
   emits has at least one constraint, so every result has a non-empty trace. *)
From ACV Require Import Base.Strs Model.Report Model.Dnf Proofs.ReportProofs Proofs.DnfProofs.
Local Open Scope list_scope.

(* result = {location?, trace: [trace entries]} ; trace entry = {location?, traceValue: {subResult: [results]}} *)
Inductive rshape := RS (has_location : bool) (traces : list tshape)
with tshape := TS (has_location : bool) (subresults : list rshape).

Definition location_tree : et :=
  ET [(TKey "range", ET [(TKey "start", ET []); (TKey "end", ET [])])].

Fixpoint indexed_from {X} (f : X -> et) (i : nat) (l : list X) : list (tok * et) :=
  match l with [] => [] | x :: r => (TIdx i, f x) :: indexed_from f (S i) r end.

Fixpoint tree_of_result (s : rshape) : et :=
  match s with
  | RS loc traces =>
    ET ((if loc then [(TKey "location", location_tree)] else []) ++
        (fix go (i : nat) (l : list tshape) : list (tok * et) :=
           match l with [] => [] | t :: r => (TIdx i, tree_of_trace t) :: go (S i) r end) 0 traces)
  end
with tree_of_trace (t : tshape) : et :=
  match t with
  | TS loc subs =>
    ET ((if loc then [(TKey "location", location_tree)] else []) ++
        [(TKey "traceValue",
          ET ((fix go (i : nat) (l : list rshape) : list (tok * et) :=
                 match l with [] => [] | s :: r => (TIdx i, tree_of_result s) :: go (S i) r end) 0 subs))])
  end.

(* structural size, to do induction through the nested lists *)
Fixpoint rsize (s : rshape) : nat :=
  match s with RS _ ts => S ((fix go l := match l with [] => 0 | t :: r => tsize t + go r end) ts) end
with tsize (t : tshape) : nat :=
  match t with TS _ ss => S ((fix go l := match l with [] => 0 | s :: r => rsize s + go r end) ss) end.

Lemma idx_tokens_distinct {X} (f : X -> et) : forall l i,
  distinct_toks (map fst (indexed_from f i l)) = true /\ forallb tok_ok (map fst (indexed_from f i l)) = true
  /\ (forall t, In t (map fst (indexed_from f i l)) -> exists j, t = TIdx j /\ i <= j).
Proof.
  induction l as [|x l IH]; intros i; simpl; [repeat split; intros t []|].
  destruct (IH (S i)) as [Hd [Ho Hr]]. repeat split.
  - rewrite Hd, andb_true_r. apply negb_true_iff. destruct (existsb _ _) eqn:E; [|reflexivity].
    apply existsb_exists in E as [t [Hin Ht]]. apply tok_eqb_eq in Ht. subst t. destruct (Hr _ Hin) as [j [Ej Hj]]. inversion Ej. lia.
  - exact Ho.
  - intros t [<-|Hin]; [eauto|]. destruct (Hr _ Hin) as [j [-> Hj]]. exists j. split; [reflexivity|lia].
Qed.

Lemma wf_children_indexed {X} (f : X -> et) : forall l i, (forall x, In x l -> wf_et (f x) = true) ->
  (fix go (l : list (tok * et)) : bool := match l with [] => true | (_, c) :: r => wf_et c && go r end) (indexed_from f i l) = true.
Proof. induction l as [|x l IH]; intros i H; simpl; [reflexivity|]. rewrite H by (now left). simpl. apply IH. intros; apply H; now right. Qed.

Lemma go_result_indexed : forall l i,
  (fix go (i : nat) (l : list tshape) : list (tok * et) := match l with [] => [] | t :: r => (TIdx i, tree_of_trace t) :: go (S i) r end) i l
  = indexed_from tree_of_trace i l.
Proof. induction l; intros; simpl; [reflexivity|]. now rewrite IHl. Qed.
Lemma go_trace_indexed : forall l i,
  (fix go (i : nat) (l : list rshape) : list (tok * et) := match l with [] => [] | s :: r => (TIdx i, tree_of_result s) :: go (S i) r end) i l
  = indexed_from tree_of_result i l.
Proof. induction l; intros; simpl; [reflexivity|]. now rewrite IHl. Qed.

Lemma location_wf : wf_et location_tree = true.
Proof. vm_compute. reflexivity. Qed.

Lemma wf_et_cons t c kids :
  wf_et (ET ((t, c) :: kids)) = negb (existsb (tok_eqb t) (map fst kids)) && tok_ok t && wf_et c && wf_et (ET kids).
Proof.
  cbn [wf_et map fst distinct_toks forallb].
  set (a := negb (existsb (tok_eqb t) (map fst kids))). set (b := distinct_toks (map fst kids)).
  set (d := tok_ok t). set (e := forallb tok_ok (map fst kids)). set (w := wf_et c).
  set (g := (fix go (l : list (tok * et)) : bool := match l with [] => true | (_, c0) :: r => wf_et c0 && go r end) kids).
  destruct a, b, d, e, w, g; reflexivity.
Qed.
Lemma wf_et_indexed {X} (f : X -> et) l i : (forall x, In x l -> wf_et (f x) = true) -> wf_et (ET (indexed_from f i l)) = true.
Proof.
  intros H. destruct (idx_tokens_distinct f l i) as [Hd [Ho _]]. cbn [wf_et]. rewrite Hd, Ho. simpl. now apply wf_children_indexed.
Qed.

(* with the location child in front: the key "location" is not an index token *)
Lemma wf_with_location {X} (f : X -> et) (loc : bool) l : (forall x, In x l -> wf_et (f x) = true) ->
  wf_et (ET ((if loc then [(TKey "location", location_tree)] else []) ++ indexed_from f 0 l)) = true.
Proof.
  intros H. destruct loc; cbn [app]; [|now apply wf_et_indexed].
  rewrite wf_et_cons, location_wf, (wf_et_indexed f l 0 H).
  destruct (idx_tokens_distinct f l 0) as [_ [_ Hr]].
  destruct (existsb (tok_eqb (TKey "location")) (map fst (indexed_from f 0 l))) eqn:E; [|reflexivity].
  apply existsb_exists in E as [t [Hin Ht]]. apply tok_eqb_eq in Ht. subst t. destruct (Hr _ Hin) as [j [Ej _]]. discriminate.
Qed.

Theorem shapes_wf : forall n, (forall s, rsize s <= n -> wf_et (tree_of_result s) = true) /\ (forall t, tsize t <= n -> wf_et (tree_of_trace t) = true).
Proof.
  induction n as [|n [IHr IHt]].
  - split; [intros [loc ts]|intros [loc ss]]; simpl; intros H; lia.
  - split.
    + intros [loc ts] Hs. cbn [tree_of_result]. rewrite go_result_indexed. apply wf_with_location.
      intros t Hin. apply IHt. simpl in Hs. clear -Hs Hin. induction ts as [|x ts IH]; simpl in *; [destruct Hin|]. destruct Hin as [->|Hin]; [lia|]. apply IH; [lia|assumption].
    + intros [loc ss] Hs. cbn [tree_of_trace]. rewrite go_trace_indexed.
      assert (Hsub : wf_et (ET (indexed_from tree_of_result 0 ss)) = true).
      { apply wf_et_indexed. intros s Hin. apply IHr. simpl in Hs. clear -Hs Hin.
        induction ss as [|x ss IH]; simpl in *; [destruct Hin|]. destruct Hin as [->|Hin]; [lia|]. apply IH; [lia|assumption]. }
      destruct loc; cbn [app]; rewrite !wf_et_cons, ?location_wf, Hsub; reflexivity.
Qed.

Theorem result_tree_wf : forall s, wf_et (tree_of_result s) = true.
Proof. intros s. apply (proj1 (shapes_wf (rsize s))). lia. Qed.

(* hence: whatever the traces and sub-results, all nodes of a result get pairwise different ids *)
Theorem result_ids_unique : forall s id, NoDup (ids id (tree_of_result s)).
Proof. intros. apply ids_unique, result_tree_wf. Qed.

(* ------------------------------------------------------------------ every emitted branch has a constraint *)
Section Branches.
Variables (A P : Type).
Notation rule := (rule A P).
Notation gres := (gres A P).
Notation simple := (simple A P).
Notation disp := (@disp A P).
Notation negate := (@negate A P).
Notation wf := (@wf A P).
Notation okg := (@okg A P).
Notation okl := (@okl A P).
Notation as_branch := (@as_branch A P).
Notation expand_step := (@expand_step A P).
Notation simples := (@simples A P).
Notation branchsets := (@branchsets A P).
Notation simples_of := (@simples_of A P).
Notation branches_of := (@branches_of A P).
Notation all_with := (@all_with A P).

Definition all_nonempty (gs : list gres) : Prop := forall g, In g gs -> as_branch g <> [].

Lemma expand_step_keeps (acc : list (list simple)) bs : (forall a, In a acc -> a <> []) -> forall e, In e (expand_step acc bs) -> e <> [].
Proof.
  intros H e Hin. unfold Dnf.expand_step in Hin. apply in_flat_map in Hin as [b [_ Hin]]. apply in_map_iff in Hin as [src [<- Hs]].
  specialize (H src Hs). destruct src; [congruence|discriminate].
Qed.
Lemma expand_step_adds (acc : list (list simple)) bs : (forall b, In b bs -> b <> []) -> forall e, In e (expand_step acc bs) -> e <> [].
Proof.
  intros H e Hin. unfold Dnf.expand_step in Hin. apply in_flat_map in Hin as [b [Hb Hin]]. apply in_map_iff in Hin as [src [<- Hs]].
  specialize (H b Hb). destruct src; simpl; [assumption|discriminate].
Qed.
Lemma fold_keeps bss : forall (acc : list (list simple)), (forall a, In a acc -> a <> []) -> forall e, In e (fold_left expand_step bss acc) -> e <> [].
Proof. induction bss as [|bs bss IH]; simpl; intros acc H e Hin; [auto|]. eapply IH; [|exact Hin]. now apply expand_step_keeps. Qed.

Lemma simple_or_branches (x : list gres) : @shape A P x -> all_nonempty x ->
  (exists s, x = [GSimple s]) \/ (simples_of x = [] /\ branches_of x <> [] /\ forall b, In b (branches_of x) -> b <> []).
Proof.
  intros [[s ->]|[Hne Hb]] Hn; [left; eauto|right].
  assert (Hall : forall g, In g x -> exists b, g = GBranch b).
  { intros g Hg. rewrite forallb_forall in Hb. specialize (Hb g Hg). destruct g; [discriminate|eauto]. }
  repeat split.
  - clear Hne Hb Hn. induction x as [|g x IH]; simpl; [reflexivity|]. destruct (Hall g (or_introl eq_refl)) as [b ->]. simpl. apply IH. intros; apply Hall; now right.
  - destruct x as [|g x]; [congruence|]. destruct (Hall g (or_introl eq_refl)) as [b ->]. simpl. discriminate.
  - intros b Hin. unfold Dnf.branches_of in Hin. apply in_flat_map in Hin as [g [Hg Hin]]. destruct g as [s|b']; [destruct Hin|].
    destruct Hin as [<-|[]]. exact (Hn _ Hg).
Qed.

Theorem branches_nonempty : forall fuel r gs, okg r -> disp fuel r = Some gs -> all_nonempty gs.
Proof.
  induction fuel as [|fuel IH]; [discriminate|]. intros r gs Hok Hd. simpl in Hd.
  assert (IHl : forall l xs, okl l -> all_with (disp fuel) l = Some xs ->
                Forall2 (fun r x => @shape A P x /\ all_nonempty x) l xs).
  { intros l xs [_ Hw] Ha. apply all_with_spec in Ha. rewrite forallb_forall in Hw.
    induction Ha as [|r0 x l0 xs0 Hr0 Ha IHa]; constructor.
    - split; [|eapply IH; [left; apply Hw; now left|exact Hr0]].
      (* shape: from the main theorem, for any semantics *)
      exact (proj1 (@main A unit P (fun _ _ => true) (fun _ _ => true) (fun _ _ => []) fuel r0 x (or_introl (Hw r0 (or_introl eq_refl))) Hr0)).
    - apply IHa. intros; apply Hw; now right. }
  destruct r as [n a|b l|b l|b i t e|b q p r].
  - inversion Hd; subst. intros g [<-|[]]. discriminate.
  - assert (Hl : okl l).
    { destruct Hok as [Hw|[b' [l' [[E|E] Ho]]]]; [apply wf_okl in Hw as [_ Ho]; auto|inversion E; subst; auto|discriminate]. }
    destruct b.
    + eapply IH; [|exact Hd]. right. exists false, (map negate l). split; [right; reflexivity|apply okl_negate; auto].
    + destruct (all_with (disp fuel) l) as [xs|] eqn:Ea; [|discriminate]. inversion Hd; subst; clear Hd.
      pose proof (IHl _ _ Hl Ea) as HF. intros g Hg. apply in_map_iff in Hg as [g0 [<- Hg0]]. simpl.
      apply in_concat in Hg0 as [x [Hx Hg0]]. clear -HF Hx Hg0. induction HF as [|r x' l xs [_ Hn] _ IHF]; [destruct Hx|].
      destruct Hx as [->|Hx]; [exact (Hn _ Hg0)|auto].
  - assert (Hl : okl l).
    { destruct Hok as [Hw|[b' [l' [[E|E] Ho]]]]; [apply wf_okl' in Hw as [_ Ho]; auto|discriminate|inversion E; subst; auto]. }
    destruct b.
    + eapply IH; [|exact Hd]. right. exists false, (map negate l). split; [left; reflexivity|apply okl_negate; auto].
    + destruct (all_with (disp fuel) l) as [xs|] eqn:Ea; [|discriminate]. inversion Hd; subst; clear Hd.
      pose proof (IHl _ _ Hl Ea) as HF. intros g Hg. apply in_map_iff in Hg as [e [<- He]]. simpl. unfold Dnf.expand in He.
      (* every branch set holds non-empty branches; if there is none, the simple results are not empty *)
      assert (Hbs : forall bs, In bs (branchsets xs) -> forall b, In b bs -> b <> []).
      { clear -HF. induction HF as [|r x l xs [Hs Hn] _ IHF]; [intros bs []|]. intros bs Hin. unfold Dnf.branchsets in *. simpl in Hin.
        apply in_app_or in Hin as [Hin|Hin]; [|exact (IHF bs Hin)].
        destruct (simple_or_branches x Hs Hn) as [[s ->]|[_ [Hne Hb]]]; [destruct Hin|].
        destruct (branches_of x) eqn:Eb; [congruence|]. destruct Hin as [<-|[]]. exact Hb. }
      destruct (branchsets xs) as [|bs bss] eqn:Ebs.
      * simpl in He. destruct He as [<-|[]].
        destruct Hl as [Hne _]. destruct HF as [|r x l xs [Hs Hn] HF']; [congruence|].
        destruct (simple_or_branches x Hs Hn) as [[s ->]|[_ [Hneb _]]].
        -- unfold Dnf.simples. simpl. discriminate.
        -- exfalso. unfold Dnf.branchsets in Ebs. simpl in Ebs. destruct (branches_of x); [congruence|discriminate].
      * simpl in He. eapply fold_keeps; [|exact He]. apply expand_step_adds. apply Hbs. now left.
  - assert (Hw : wf i = true /\ wf t = true /\ match e with Some e' => b = false /\ wf e' = true | None => True end).
    { destruct Hok as [Hw|[b' [l' [[E|E] _]]]]; try discriminate. simpl in Hw.
      apply andb_prop in Hw as [Hw He]. apply andb_prop in Hw as [Hi Ht]. repeat split; auto.
      destruct e; auto. apply andb_prop in He as [Hb He]. destruct b; [discriminate|auto]. }
    destruct Hw as [Hi [Ht He]].
    destruct (disp fuel (ROr b [negate i; t])) as [a|] eqn:E1; [|discriminate].
    assert (H1 : all_nonempty a).
    { eapply IH; [|exact E1]. right. exists b, [negate i; t]. split; [right; reflexivity|split; [discriminate|simpl; rewrite wf_negate, Ht; auto]]. }
    destruct e as [e'|].
    + destruct He as [-> He]. destruct (disp fuel (ROr false [i; e'])) as [c|] eqn:E2; [|discriminate]. inversion Hd; subst; clear Hd.
      assert (H2 : all_nonempty c).
      { eapply IH; [|exact E2]. right. exists false, [i; e']. split; [right; reflexivity|split; [discriminate|simpl; rewrite Hi, He; auto]]. }
      intros g Hg. apply in_app_or in Hg as [Hg|Hg]; auto.
    + inversion Hd; subst. exact H1.
  - destruct (disp fuel r) as [xs|]; [|discriminate]. inversion Hd; subst. intros g [<-|[]]. discriminate.
Qed.
End Branches.
