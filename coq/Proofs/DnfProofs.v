(* Literal-level correctness of the failure DNF: for every well-formed rule of any depth and width,
   a node is reported iff the rule's two-polarity reading is false at it. *)
From Coq Require Import List Bool Arith Lia.
Import ListNotations.
From ACV Require Import Model.Dnf.

Lemma existsb_map' {X Y} (f:X->Y) (g:Y->bool) l : existsb g (map f l) = existsb (fun x => g (f x)) l.
Proof. induction l; simpl; congruence. Qed.
Lemma forallb_map' {X Y} (f:X->Y) (g:Y->bool) l : forallb g (map f l) = forallb (fun x => g (f x)) l.
Proof. induction l; simpl; congruence. Qed.
Lemma existsb_ext_in' {X} (f g:X->bool) l : (forall x, In x l -> f x = g x) -> existsb f l = existsb g l.
Proof. induction l; simpl; intros H; auto. rewrite H, IHl; auto. Qed.
Lemma forallb_ext_in' {X} (f g:X->bool) l : (forall x, In x l -> f x = g x) -> forallb f l = forallb g l.
Proof. induction l; simpl; intros H; auto. rewrite H, IHl; auto. Qed.
Lemma filter_ext_in' {X} (f g:X->bool) l : (forall x, In x l -> f x = g x) -> filter f l = filter g l.
Proof. induction l; simpl; intros H; auto. rewrite H, IHl; auto. Qed.

Section DnfProofs.
Variables (A N P : Type).
Variables (Fpos Fneg : A -> N -> bool).
Variable children : P -> N -> list N.
Notation rule := (rule A P).
Notation simple := (simple A P).
Notation gres := (gres A P).
Notation negate := (@negate A P).
Notation wf := (@wf A P).
Notation rs := (@rs A N P Fpos Fneg children).
Notation as_branch := (@as_branch A P).
Notation is_branch := (@is_branch A P).
Notation simples_of := (@simples_of A P).
Notation branches_of := (@branches_of A P).
Notation simples := (@simples A P).
Notation branchsets := (@branchsets A P).
Notation expand_step := (@expand_step A P).
Notation expand := (@expand A P).
Notation all_with := (@all_with A P).
Notation disp := (@disp A P).
Notation fires := (@fires A N P Fpos Fneg children).
Notation fb := (@fb A N P Fpos Fneg children).
Notation reported := (@reported A N P Fpos Fneg children).
Notation shape := (@shape A P).
Notation okl := (@okl A P).
Notation okg := (@okg A P).
Notation good := (@good A N P Fpos Fneg children).

Lemma wf_negate : forall r, wf r = true -> wf (negate r) = true.
Proof.
  induction r using rule_ind2; simpl; intros Hw; auto.
  - apply andb_prop in Hw as [Hw Hf]. apply andb_prop in Hw as [_ Hl].
    rewrite map_length, Hl. simpl. rewrite forallb_forall in *. intros x Hx.
    apply in_map_iff in Hx as [y [<- Hy]]. rewrite Forall_forall in H. auto.
  - apply andb_prop in Hw as [Hw Hf]. apply andb_prop in Hw as [_ Hl].
    rewrite map_length, Hl. simpl. rewrite forallb_forall in *. intros x Hx.
    apply in_map_iff in Hx as [y [<- Hy]]. rewrite Forall_forall in H. auto.
  - apply andb_prop in Hw as [Hw He]. apply andb_prop in Hw as [Hi Ht].
    destruct e as [e'|]; simpl in *.
    + apply andb_prop in He as [Hn He]. destruct n; simpl in *; try discriminate.
      rewrite Hi, IHr1, IHr2, H; auto.
    + rewrite Hi, Ht. reflexivity.
Qed.

Lemma negate_sem : forall r, wf r = true -> forall pol n, rs pol (negate r) n = rs (negb pol) r n.
Proof.
  induction r using rule_ind2; simpl; intros Hw pol m.
  - destruct pol, n; reflexivity.
  - apply andb_prop in Hw as [Hw Hf]. apply andb_prop in Hw as [Hn _].
    destruct n; try discriminate. rewrite forallb_forall in Hf. rewrite Forall_forall in H.
    destruct pol; simpl.
    + rewrite existsb_map'. apply existsb_ext_in'. intros; apply H; auto.
    + rewrite forallb_map'. apply forallb_ext_in'. intros; apply H; auto.
  - apply andb_prop in Hw as [Hw Hf]. apply andb_prop in Hw as [Hn _].
    destruct n; try discriminate. rewrite forallb_forall in Hf. rewrite Forall_forall in H.
    destruct pol; simpl.
    + rewrite forallb_map'. apply forallb_ext_in'. intros; apply H; auto.
    + rewrite existsb_map'. apply existsb_ext_in'. intros; apply H; auto.
  - apply andb_prop in Hw as [Hw He]. apply andb_prop in Hw as [Hi Ht].
    destruct e as [e'|]; simpl in *.
    + apply andb_prop in He as [Hn He]. destruct n; try discriminate. simpl.
      destruct pol; simpl; rewrite ?IHr1, ?IHr2, ?H by auto; simpl;
      repeat rewrite ?andb_true_r, ?orb_false_r; reflexivity.
    + destruct pol, n; reflexivity.
  - destruct pol, n; simpl; reflexivity.
Qed.

Lemma fb_app n a b : fb n (a ++ b) = fb n a && fb n b.
Proof. unfold fb. apply forallb_app. Qed.

Lemma existsb_and_r {X} (f:X->bool) c l : existsb (fun x => f x && c) l = existsb f l && c.
Proof. induction l; simpl; auto. rewrite IHl. destruct (f a), c, (existsb f l); reflexivity. Qed.

Lemma expand_step_sem n acc branches :
  existsb (fb n) (expand_step acc branches) = existsb (fb n) acc && existsb (fb n) branches.
Proof.
  unfold expand_step. induction branches as [|b bs IH]; simpl.
  - rewrite andb_false_r; reflexivity.
  - rewrite existsb_app, IH, existsb_map'.
    rewrite (existsb_ext_in' _ (fun x => fb n x && fb n b)) by (intros; apply fb_app).
    rewrite existsb_and_r. destruct (existsb (fb n) acc), (fb n b), (existsb (fb n) bs); reflexivity.
Qed.

Lemma expand_sem n bss : forall acc,
  existsb (fb n) (fold_left expand_step bss acc) =
  existsb (fb n) acc && forallb (fun bs => existsb (fb n) bs) bss.
Proof.
  induction bss as [|b bss IH]; simpl; intros acc.
  - rewrite andb_true_r; reflexivity.
  - rewrite IH, expand_step_sem. rewrite andb_assoc. reflexivity.
Qed.

Lemma all_with_spec d l rs : all_with d l = Some rs -> Forall2 (fun r x => d r = Some x) l rs.
Proof.
  revert rs; induction l as [|r l IH]; simpl; intros rs H.
  - inversion H; constructor.
  - destruct (d r) eqn:E; try discriminate. destruct (all_with d l) eqn:E2; try discriminate.
    inversion H; subst. constructor; auto.
Qed.

Lemma shape_nonempty gs : shape gs -> gs <> [].
Proof. intros [[s ->]|[H _]]; auto; discriminate. Qed.

Lemma reported_app a b n : reported (a ++ b) n = reported a n || reported b n.
Proof. unfold reported. apply existsb_app. Qed.

Lemma and_sem l xs n :
  Forall2 (fun r x => reported x n = negb (rs true r n)) l xs ->
  existsb (fun g => fb n (as_branch g)) (concat xs) = negb (forallb (fun r => rs true r n) l).
Proof.
  induction 1 as [|r x l xs H _ IH]; simpl; auto.
  rewrite existsb_app, IH. unfold reported in H. rewrite H. rewrite negb_andb. reflexivity.
Qed.

Lemma or_sem l xs n :
  Forall2 (fun r x => shape x /\ reported x n = negb (rs true r n)) l xs ->
  fb n (simples xs) && forallb (fun bs => existsb (fb n) bs) (branchsets xs)
  = negb (existsb (fun r => rs true r n) l).
Proof.
  induction 1 as [|r x l xs [Hs H] _ IH]; simpl; auto.
  unfold simples, branchsets in *. simpl. rewrite fb_app, forallb_app.
  rewrite negb_orb, <- H, <- IH. clear IH H.
  destruct Hs as [[s ->]|[Hne Hb]].
  - simpl. unfold reported, fb. simpl. rewrite !andb_true_r, orb_false_r.
    set (u := forallb _ (flat_map simples_of xs)). set (v := forallb _ _).
    destruct (fires s n), u, v; reflexivity.
  - assert (Hso : simples_of x = []).
    { clear Hne. induction x as [|g x IHx]; simpl in *; auto.
      apply andb_prop in Hb as [Hg Hb]. destruct g; try discriminate. simpl. auto. }
    assert (Hbo : branches_of x = map as_branch x).
    { clear Hne Hso. induction x as [|g x IHx]; simpl in *; auto.
      apply andb_prop in Hb as [Hg Hb]. destruct g; try discriminate. simpl. f_equal; auto. }
    rewrite Hso, Hbo. destruct x as [|g x]; [congruence|]. simpl map. cbv iota beta.
    assert (E : forallb (fun bs : list (list simple) => existsb (fb n) bs) [as_branch g :: map as_branch x]
                = reported (g :: x) n).
    { unfold reported. cbn [forallb]. rewrite andb_true_r. cbn [existsb]. rewrite existsb_map'. reflexivity. }
    rewrite E. change (fb n []) with true.
    set (u := reported (g::x) n). set (v := fb n (flat_map simples_of xs)). set (w := forallb _ _).
    destruct u, v, w; reflexivity.
Qed.

Lemma expand_step_nonempty acc branches : acc <> [] -> branches <> [] -> expand_step acc branches <> [].
Proof.
  unfold expand_step. destruct branches as [|b bs]; [congruence|]. destruct acc as [|a acc]; [congruence|].
  simpl. discriminate.
Qed.
Lemma expand_nonempty bss : Forall (fun bs => bs <> []) bss -> forall acc, acc <> [] -> fold_left expand_step bss acc <> [].
Proof.
  induction 1; simpl; intros acc Ha; auto. apply IHForall. apply expand_step_nonempty; auto.
Qed.
Lemma branchsets_nonempty xs : Forall (fun bs => bs <> []) (branchsets xs).
Proof.
  unfold branchsets. induction xs as [|x xs IH]; simpl; [constructor|].
  apply Forall_app; split; auto. destruct (branches_of x); constructor; [discriminate|constructor].
Qed.

Lemma okl_negate l : okl l -> okl (map negate l).
Proof.
  intros [Hne Hw]; split.
  - destruct l; simpl; congruence.
  - rewrite forallb_map'. rewrite forallb_forall in *. intros; apply wf_negate; auto.
Qed.

Lemma wf_okl b l : wf (RAnd b l) = true -> b = false /\ okl l.
Proof.
  simpl. intros H. apply andb_prop in H as [H Hf]. apply andb_prop in H as [Hb Hl].
  destruct b; [discriminate|]. split; auto. split; auto. destruct l; [discriminate|discriminate].
Qed.
Lemma wf_okl' b l : wf (ROr b l) = true -> b = false /\ okl l.
Proof. exact (wf_okl b l). Qed.

Lemma andor_branches : forall fuel r gs, (exists b l, r = RAnd b l \/ r = ROr b l) -> disp fuel r = Some gs -> forallb is_branch gs = true.
Proof.
  induction fuel as [|fuel IH]; [discriminate|]. intros r gs [b [l [->| ->]]] Hd; simpl in Hd.
  - destruct b.
    + eapply IH; [|exact Hd]. eauto.
    + destruct (all_with (disp fuel) l); [|discriminate]. inversion Hd; subst.
      rewrite forallb_map'. apply forallb_forall. reflexivity.
  - destruct b.
    + eapply IH; [|exact Hd]. eauto.
    + destruct (all_with (disp fuel) l); [|discriminate]. inversion Hd; subst.
      rewrite forallb_map'. apply forallb_forall. reflexivity.
Qed.
Lemma or_branches fuel b l gs : disp fuel (ROr b l) = Some gs -> forallb is_branch gs = true.
Proof. intros H. eapply andor_branches; [|exact H]. eauto. Qed.

Theorem main : forall fuel r gs, okg r -> disp fuel r = Some gs -> good r gs.
Proof.
  induction fuel as [|fuel IH]; [discriminate|]. intros r gs Hok Hd. simpl in Hd.
  assert (IHl : forall l xs, okl l -> all_with (disp fuel) l = Some xs ->
                Forall2 (fun r x => good r x) l xs).
  { intros l xs [_ Hw] Ha. apply all_with_spec in Ha. rewrite forallb_forall in Hw.
    induction Ha; constructor; auto.
    - apply IH; auto. left. apply Hw; left; auto.
    - apply IHHa. intros; apply Hw; right; auto. }
  destruct r as [n a|b l|b l|b i t e|b q p r].
  - (* atom *) inversion Hd; subst. split; [left; eauto|]. intros m.
    unfold reported, fb; simpl. destruct n; simpl; rewrite andb_true_r, orb_false_r, negb_involutive; reflexivity.
  - (* and *)
    assert (Hl : okl l /\ (b = true \/ b = false)).
    { destruct Hok as [Hw|[b' [l' [[E|E] Ho]]]].
      - apply wf_okl in Hw as [-> Ho]. auto.
      - inversion E; subst. destruct b'; auto.
      - discriminate. }
    destruct Hl as [Hl _]. destruct b.
    + (* negated and: generated as or of negated body *)
      apply IH in Hd; [|right; exists false, (map negate l); split; [right; reflexivity|apply okl_negate; auto]].
      destruct Hd as [Hs Hr]. split; auto. intros m. rewrite Hr. simpl. rewrite existsb_map'.
      f_equal. apply existsb_ext_in'. intros x Hx. apply negate_sem.
      destruct Hl as [_ Hw]. rewrite forallb_forall in Hw; auto.
    + destruct (all_with (disp fuel) l) as [xs|] eqn:Ea; [|discriminate]. inversion Hd; subst; clear Hd.
      pose proof (IHl _ _ Hl Ea) as HF. split.
      * right. split.
        -- destruct Hl as [Hne _]. destruct HF as [|r x l xs [Hs _] _]; [congruence|].
           apply shape_nonempty in Hs. destruct x; [congruence|]. simpl. discriminate.
        -- rewrite forallb_map'. apply forallb_forall. reflexivity.
      * intros m. unfold reported. rewrite existsb_map'. simpl.
        apply and_sem. clear -HF. induction HF as [|r x l xs [_ H] _ IHF]; constructor; auto.
  - (* or *)
    assert (Hl : okl l).
    { destruct Hok as [Hw|[b' [l' [[E|E] Ho]]]].
      - apply wf_okl' in Hw as [_ Ho]; auto.
      - discriminate.
      - inversion E; subst; auto. }
    destruct b.
    + apply IH in Hd; [|right; exists false, (map negate l); split; [left; reflexivity|apply okl_negate; auto]].
      destruct Hd as [Hs Hr]. split; auto. intros m. rewrite Hr. simpl. rewrite forallb_map'.
      f_equal. apply forallb_ext_in'. intros x Hx. apply negate_sem.
      destruct Hl as [_ Hw]. rewrite forallb_forall in Hw; auto.
    + destruct (all_with (disp fuel) l) as [xs|] eqn:Ea; [|discriminate]. inversion Hd; subst; clear Hd.
      pose proof (IHl _ _ Hl Ea) as HF. split.
      * right. split.
        -- unfold expand. intros E. apply map_eq_nil in E. revert E.
           apply expand_nonempty; [apply branchsets_nonempty|discriminate].
        -- rewrite forallb_map'. apply forallb_forall. reflexivity.
      * intros m. unfold reported. rewrite existsb_map'. simpl. unfold expand. rewrite expand_sem.
        simpl. rewrite orb_false_r. apply or_sem.
        clear -HF. induction HF as [|r x l xs [Hs H] _ IHF]; constructor; auto.
  - (* conditional *)
    assert (Hw : wf i = true /\ wf t = true /\ match e with Some e' => b = false /\ wf e' = true | None => True end).
    { destruct Hok as [Hw|[b' [l' [[E|E] _]]]]; try discriminate. simpl in Hw.
      apply andb_prop in Hw as [Hw He]. apply andb_prop in Hw as [Hi Ht]. repeat split; auto.
      destruct e; auto. apply andb_prop in He as [Hb He]. destruct b; [discriminate|auto]. }
    destruct Hw as [Hi [Ht He]].
    destruct (disp fuel (ROr b [negate i; t])) as [a|] eqn:E1; [|discriminate].
    pose proof E1 as E1'. apply IH in E1; [|right; exists b, [negate i; t]; split; [right; reflexivity|split; [discriminate|simpl; rewrite wf_negate, Ht; auto]]].
    destruct E1 as [S1 R1].
    destruct e as [e'|].
    + destruct He as [-> He].
      destruct (disp fuel (ROr false [i; e'])) as [c|] eqn:E2; [|discriminate]. inversion Hd; subst; clear Hd.
      pose proof E2 as E2'. apply IH in E2; [|right; exists false, [i; e']; split; [right; reflexivity|split; [discriminate|simpl; rewrite Hi, He; auto]]].
      destruct E2 as [S2 R2]. split.
      * right. split.
        -- apply shape_nonempty in S1. destruct a; [congruence|discriminate].
        -- rewrite forallb_app. rewrite (or_branches _ _ _ _ E1'), (or_branches _ _ _ _ E2'). reflexivity.
      * intros m. rewrite reported_app, R1, R2. simpl. rewrite !orb_false_r.
        rewrite (negate_sem i Hi). simpl. rewrite negb_andb. reflexivity.
    + inversion Hd; subst; clear Hd. split; auto. intros m. rewrite R1. simpl. destruct b; simpl.
      * rewrite andb_true_r. rewrite (negate_sem i Hi). reflexivity.
      * rewrite orb_false_r. rewrite (negate_sem i Hi). reflexivity.
  - (* nested *)
    assert (Hw : wf r = true).
    { destruct Hok as [Hw|[b' [l' [[E|E] _]]]]; try discriminate. exact Hw. }
    destruct (disp fuel r) as [xs|] eqn:E; [|discriminate]. inversion Hd; subst; clear Hd.
    apply IH in E; [|left; auto]. destruct E as [_ R]. split.
    + right. split; [discriminate|reflexivity].
    + intros m. unfold reported, fb. cbn [existsb as_branch forallb]. rewrite andb_true_r, orb_false_r.
      cbn [fires rs]. 
      rewrite (filter_ext_in' _ (fun c => negb (rs true r c))).
      2:{ intros c _. rewrite <- R. unfold reported. rewrite existsb_map'. reflexivity. }
      destruct b; simpl; destruct (qtest q _ _); reflexivity.
Qed.

End DnfProofs.
