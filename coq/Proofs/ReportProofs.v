(* C03 / C12: BuildReport over arbitrary result lists: conforms, severities, header, configuration; and
   uniqueness of the positional @ids of defineIdRecursively for result trees of any depth and width. *)
From Coq Require Import DecimalString DecimalNat.
From ACV Require Import Base.Strs Model.Report.

Section et_ind2.
  Variable Q : et -> Prop.
  Hypothesis H : forall kids, Forall (fun kc => Q (snd kc)) kids -> Q (ET kids).
  Fixpoint et_ind2 (t : et) : Q t :=
    match t with
    | ET kids => H kids ((fix go (l : list (tok * et)) : Forall (fun kc => Q (snd kc)) l :=
                            match l with
                            | [] => Forall_nil _
                            | (tk, c) :: r => Forall_cons (tk, c) (et_ind2 c) (go r)
                            end) kids)
    end.
End et_ind2.

(* ------------------------------------------------------------------ tokens *)
Lemma dec_digits i : sall is_digit (dec i) = true.
Proof. unfold dec. induction (Nat.to_uint i); simpl; auto. Qed.
Lemma dec_inj i j : dec i = dec j -> i = j.
Proof.
  unfold dec. intros E. apply Unsigned.to_uint_inj.
  pose proof (NilEmpty.usu (Nat.to_uint i)) as Hi. pose proof (NilEmpty.usu (Nat.to_uint j)) as Hj.
  rewrite E in Hi. congruence.
Qed.
Definition nous (s : string) : bool := sall (fun c => negb (is_underscore c)) s.
Lemma digits_nous s : sall is_digit s = true -> nous s = true.
Proof.
  unfold nous. induction s as [|c s IH]; simpl; auto. intros Hd. apply andb_prop in Hd as [Hc Hs].
  rewrite IH by assumption. rewrite andb_true_r. unfold is_underscore, is_digit in *.
  destruct (Ascii.eqb c "_") eqn:E; [|reflexivity]. apply Ascii.eqb_eq in E. subst c. discriminate.
Qed.
Lemma render_nous t : tok_ok t = true -> nous (render t) = true.
Proof.
  destruct t as [k|i]; simpl; intros Hk.
  - unfold key_ok in Hk. apply andb_prop in Hk as [Hk _]. exact Hk.
  - apply digits_nous, dec_digits.
Qed.
Lemma render_inj a b : tok_ok a = true -> tok_ok b = true -> render a = render b -> a = b.
Proof.
  destruct a as [k|i], b as [k'|j]; simpl; intros Ha Hb E.
  - congruence.
  - unfold key_ok in Ha. apply andb_prop in Ha as [_ Ha]. rewrite E, dec_digits in Ha. discriminate.
  - unfold key_ok in Hb. apply andb_prop in Hb as [_ Hb]. rewrite <- E, dec_digits in Hb. discriminate.
  - f_equal. now apply dec_inj.
Qed.
Lemma tok_eqb_eq a b : tok_eqb a b = true <-> a = b.
Proof.
  destruct a as [k|i], b as [k'|j]; simpl; split; intros E; try discriminate; try congruence.
  - apply String.eqb_eq in E. congruence.
  - inversion E. apply String.eqb_refl.
  - apply Nat.eqb_eq in E. congruence.
  - inversion E. apply Nat.eqb_refl.
Qed.
Lemma distinct_toks_NoDup l : distinct_toks l = true -> NoDup l.
Proof.
  induction l as [|t l IH]; simpl; intros Hd; [constructor|]. apply andb_prop in Hd as [Hn Hd].
  constructor; [|auto]. intros Hin. apply negb_true_iff in Hn.
  assert (existsb (tok_eqb t) l = true); [|congruence].
  apply existsb_exists. exists t. split; [assumption|now apply tok_eqb_eq].
Qed.

(* ------------------------------------------------------------------ joining tokens is injective *)
Fixpoint J (p : list tok) : string :=
  match p with [] => "" | t :: r => "_" ++ render t ++ J r end.
Definition starts (r : string) : Prop := r = "" \/ exists r', r = String "_" r'.
Lemma J_starts p : starts (J p).
Proof. destruct p; simpl; [left; reflexivity|right; eauto]. Qed.

Lemma split_unique : forall t u r s, nous t = true -> nous u = true -> starts r -> starts s ->
  t ++ r = u ++ s -> t = u /\ r = s.
Proof.
  unfold nous. induction t as [|c t IH]; intros [|d u] r s Ht Hu Hr Hs E; simpl in *.
  - auto.
  - exfalso. apply andb_prop in Hu as [Hd _]. destruct Hr as [->|[r' ->]]; [discriminate|].
    inversion E; subst d. discriminate.
  - exfalso. apply andb_prop in Ht as [Hc _]. destruct Hs as [->|[s' ->]]; [discriminate|].
    inversion E; subst c. discriminate.
  - inversion E; subst d. apply andb_prop in Ht as [_ Ht]. apply andb_prop in Hu as [_ Hu].
    destruct (IH u r s Ht Hu Hr Hs H1) as [-> ->]. auto.
Qed.

Lemma J_inj : forall p q, forallb tok_ok p = true -> forallb tok_ok q = true -> J p = J q -> p = q.
Proof.
  induction p as [|a p IH]; intros [|b q] Hp Hq E; simpl in *; try discriminate; auto.
  apply andb_prop in Hp as [Ha Hp]. apply andb_prop in Hq as [Hb Hq]. inversion E as [E'].
  destruct (split_unique _ _ _ _ (render_nous a Ha) (render_nous b Hb) (J_starts p) (J_starts q) E') as [Er Ej].
  f_equal; [now apply render_inj|now apply IH].
Qed.

Lemma append_inj_l (a b c : string) : a ++ b = a ++ c -> b = c.
Proof. induction a; simpl; intros E; [assumption|]. inversion E. auto. Qed.

Lemma NoDup_app_intro {X} (a b : list X) :
  NoDup a -> NoDup b -> (forall x, In x a -> ~ In x b) -> NoDup (a ++ b)%list.
Proof.
  induction a as [|x a IH]; simpl; intros Ha Hb Hd; [assumption|]. inversion Ha; subst. constructor.
  - intros Hin. apply in_app_or in Hin as [Hin|Hin]; [contradiction|]. eapply Hd; eauto.
  - apply IH; auto.
Qed.
Lemma NoDup_map_inj_in' {X Y} (f : X -> Y) (l : list X) :
  (forall a b, In a l -> In b l -> f a = f b -> a = b) -> NoDup l -> NoDup (map f l).
Proof.
  induction l as [|x l IH]; simpl; intros Hinj Hnd; [constructor|].
  inversion Hnd as [|? ? Hx Hl]; subst. constructor.
  - rewrite in_map_iff. intros [y [Hy Hin]]. apply Hx. assert (y = x) by (apply Hinj; auto). now subst.
  - apply IH; auto.
Qed.

(* ------------------------------------------------------------------ ids = joined paths *)
Fixpoint paths (t : et) {struct t} : list (list tok) :=
  match t with
  | ET kids => [] :: (fix go (l : list (tok * et)) : list (list tok) :=
                        match l with [] => [] | (tk, c) :: r => (map (cons tk) (paths c) ++ go r)%list end) kids
  end.

Lemma ids_paths : forall t id, ids id t = map (fun p => id ++ J p) (paths t).
Proof.
  induction t as [kids IH] using et_ind2. intros id. simpl. rewrite append_nil_r. f_equal.
  induction kids as [|[tk c] r IHr]; simpl; [reflexivity|].
  inversion IH as [|? ? Hc Hr]; subst. rewrite map_app, map_map. simpl in Hc. rewrite Hc.
  rewrite IHr by assumption. f_equal. apply map_ext. intros p. simpl. now rewrite !sappend_assoc.
Qed.

Lemma paths_ok : forall t, wf_et t = true -> forall p, In p (paths t) -> forallb tok_ok p = true.
Proof.
  induction t as [kids IH] using et_ind2. simpl. intros Hw p [<-|Hin]; [reflexivity|].
  apply andb_prop in Hw as [Hw Hk]. apply andb_prop in Hw as [_ Hok].
  induction kids as [|[tk c] r IHr]; simpl in *; [contradiction|].
  inversion IH as [|? ? Hc Hr]; subst. apply andb_prop in Hk as [Hwc Hk]. apply andb_prop in Hok as [Htk Hok].
  apply in_app_or in Hin as [Hin|Hin].
  - apply in_map_iff in Hin as [p' [<- Hp']]. simpl. rewrite Htk. simpl. now apply Hc.
  - now apply IHr.
Qed.

Lemma paths_NoDup : forall t, wf_et t = true -> NoDup (paths t).
Proof.
  induction t as [kids IH] using et_ind2. simpl. intros Hw.
  apply andb_prop in Hw as [Hw Hk]. apply andb_prop in Hw as [Hd _]. apply distinct_toks_NoDup in Hd.
  constructor.
  - clear. induction kids as [|[tk c] r IHr]; simpl; [tauto|]. intros Hin. apply in_app_or in Hin as [Hin|Hin]; [|tauto].
    apply in_map_iff in Hin as [p [E _]]. discriminate.
  - induction kids as [|[tk c] r IHr]; simpl in *; [constructor|].
    inversion IH as [|? ? Hc Hr]; subst. apply andb_prop in Hk as [Hwc Hk]. inversion Hd as [|? ? Hnin Hd']; subst.
    assert (Hheads : forall p, In p ((fix go (l : list (tok * et)) : list (list tok) :=
                                        match l with [] => [] | (tk, c) :: r => (map (cons tk) (paths c) ++ go r)%list end) r) ->
                               exists tk' p', p = tk' :: p' /\ In tk' (map fst r)).
    { clear. induction r as [|[tk' c'] r IHr]; simpl; [contradiction|]. intros p Hin. apply in_app_or in Hin as [Hin|Hin].
      - apply in_map_iff in Hin as [p' [<- _]]. eauto.
      - destruct (IHr p Hin) as [a [b [E Hi]]]. eauto. }
    apply NoDup_app_intro.
    + apply NoDup_map_inj_in'; [intros x y _ _ E; now inversion E|now apply Hc].
    + now apply IHr.
    + intros p Hin1 Hin2. apply in_map_iff in Hin1 as [p' [<- _]].
      destruct (Hheads _ Hin2) as [a [b [E Hi]]]. inversion E; subst. contradiction.
Qed.

(* every node of a well-shaped result tree gets its own id, whatever the depth and width *)
Theorem ids_unique : forall t id, wf_et t = true -> NoDup (ids id t).
Proof.
  intros t id Hw. rewrite ids_paths. apply NoDup_map_inj_in'.
  - intros p q Hp Hq E. apply append_inj_l in E. apply J_inj; [eapply paths_ok|eapply paths_ok|]; eauto.
  - now apply paths_NoDup.
Qed.

Lemma ids_prefix t id x : In x (ids id t) -> exists s, x = id ++ s.
Proof. rewrite ids_paths. intros Hin. apply in_map_iff in Hin as [p [<- _]]. eauto. Qed.

(* ------------------------------------------------------------------ the results of one level *)
Fixpoint indexed (i : nat) (rs : list result) : list (tok * et) :=
  match rs with [] => [] | r :: rest => (TIdx i, r_tree r) :: indexed (S i) rest end.

Lemma level_ids l : forall rs i,
  ids (level_name l) (ET (indexed i rs)) = level_name l :: flat_map o_ids (build_level l i rs).
Proof.
  intros rs i. simpl. f_equal. revert i. induction rs as [|r rs IH]; intros i; simpl; [reflexivity|].
  now rewrite IH.
Qed.

Lemma indexed_fst_lt : forall rs i t, In t (map fst (indexed i rs)) -> exists j, t = TIdx j /\ i <= j.
Proof.
  induction rs as [|r rs IH]; simpl; intros i t; [tauto|]. intros [<-|Hin]; [eauto|].
  destruct (IH _ _ Hin) as [j [-> Hj]]. exists j. split; [reflexivity|lia].
Qed.

Lemma indexed_wf : forall rs i, forallb (fun r => wf_et (r_tree r)) rs = true -> wf_et (ET (indexed i rs)) = true.
Proof.
  intros rs i Hw. simpl. rewrite !andb_true_iff. repeat split.
  - revert i. induction rs as [|r rs IH]; intros i; simpl; [reflexivity|]. simpl in Hw. apply andb_prop in Hw as [_ Hw].
    rewrite IH by assumption. rewrite andb_true_r. apply negb_true_iff.
    destruct (existsb (tok_eqb (TIdx i)) (map fst (indexed (S i) rs))) eqn:E; [|reflexivity].
    apply existsb_exists in E as [t [Hin Ht]]. apply tok_eqb_eq in Ht. subst t.
    destruct (indexed_fst_lt _ _ _ Hin) as [j [Ej Hj]]. inversion Ej. lia.
  - revert i. induction rs as [|r rs IH]; intros i; simpl; [reflexivity|]. simpl in Hw. apply andb_prop in Hw as [_ Hw]. now apply IH.
  - revert i. induction rs as [|r rs IH]; intros i; simpl; [reflexivity|]. simpl in Hw. apply andb_prop in Hw as [Hr Hw].
    rewrite Hr. simpl. now apply IH.
Qed.

Lemma level_ids_NoDup l rs : forallb (fun r => wf_et (r_tree r)) rs = true ->
  NoDup (flat_map o_ids (build_level l 0 rs)).
Proof.
  intros Hw. pose proof (ids_unique (ET (indexed 0 rs)) (level_name l) (indexed_wf rs 0 Hw)) as H.
  rewrite level_ids in H. now inversion H.
Qed.

Lemma level_ids_prefix l rs i x : In x (flat_map o_ids (build_level l i rs)) -> exists s, x = level_name l ++ s.
Proof.
  intros Hin. apply (ids_prefix (ET (indexed i rs)) (level_name l)). rewrite level_ids. now right.
Qed.

Lemma NoDup_app3 {X} (a b c : list X) :
  NoDup a -> NoDup b -> NoDup c -> (forall x, In x a -> ~ In x b) -> (forall x, In x a -> ~ In x c) -> (forall x, In x b -> ~ In x c) ->
  NoDup (a ++ b ++ c)%list.
Proof.
  intros Ha Hb Hc Hab Hac Hbc. apply NoDup_app_intro; [assumption| |].
  - apply NoDup_app_intro; assumption.
  - intros x Hx Hin. apply in_app_or in Hin as [Hin|Hin]; [eapply Hab|eapply Hac]; eauto.
Qed.

Definition all_results (m : engine_out) : list result := (e_violation m ++ e_warning m ++ e_info m)%list.

(* C12: every @id of the report document is unique *)
Theorem report_ids_unique m c :
  forallb (fun r => wf_et (r_tree r)) (all_results m) = true -> NoDup (report_ids (build_report m c)).
Proof.
  unfold all_results. rewrite !forallb_app, !andb_true_iff. intros [Hv [Hw Hi]].
  assert (Hall : NoDup (header_ids ++ flat_map o_ids (build_results m))%list).
  { unfold build_results. rewrite !flat_map_app.
    apply NoDup_app_intro.
    - unfold header_ids. repeat constructor; simpl; intuition discriminate.
    - apply NoDup_app3; try (now apply level_ids_NoDup).
      + intros x H1 H2. apply level_ids_prefix in H1 as [s ->]. apply level_ids_prefix in H2 as [s' E]. discriminate.
      + intros x H1 H2. apply level_ids_prefix in H1 as [s ->]. apply level_ids_prefix in H2 as [s' E]. discriminate.
      + intros x H1 H2. apply level_ids_prefix in H1 as [s ->]. apply level_ids_prefix in H2 as [s' E]. discriminate.
    - intros x Hh Hin. rewrite <- !flat_map_app in Hin.
      assert (exists l s, x = level_name l ++ s) as [l [s ->]].
      { rewrite !flat_map_app in Hin. apply in_app_or in Hin as [Hin|Hin]; [|apply in_app_or in Hin as [Hin|Hin]];
          apply level_ids_prefix in Hin as [s ->]; eauto. }
      unfold header_ids in Hh. simpl in Hh. destruct l; simpl in Hh; intuition discriminate. }
  unfold report_ids, build_report. simpl. destruct (build_results m) eqn:E; simpl.
  - simpl in Hall. exact Hall.
  - exact Hall.
Qed.

(* ------------------------------------------------------------------ C03 *)
Definition results_of (r : report) : list out_result := match rp_result r with Some rs => rs | None => [] end.

Lemma build_level_severity l : forall rs i o, In o (build_level l i rs) -> o_severity o = severity_iri l.
Proof. induction rs as [|r rs IH]; simpl; intros i o; [tauto|]. intros [<-|Hin]; [reflexivity|eauto]. Qed.
Lemma build_level_nil l i rs : build_level l i rs = [] <-> rs = [].
Proof. destruct rs; simpl; split; intros; try reflexivity; discriminate. Qed.
Lemma build_level_map l : forall rs i, map o_res (build_level l i rs) = rs.
Proof. induction rs as [|r rs IH]; simpl; intros i; [reflexivity|]. now rewrite IH. Qed.

Lemma results_of_build m c : results_of (build_report m c) = build_results m.
Proof. unfold results_of, build_report. simpl. now destruct (build_results m). Qed.

(* conforms is true exactly when no result has Violation severity *)
Theorem conforms_iff m c :
  rp_conforms (build_report m c) = true <->
  (forall o, In o (results_of (build_report m c)) -> o_severity o <> severity_iri Violation).
Proof.
  rewrite results_of_build. unfold build_report, build_results. simpl. split.
  - intros Hn o Hin. destruct (e_violation m); [|discriminate]. simpl in Hin.
    apply in_app_or in Hin as [Hin|Hin]; apply build_level_severity in Hin; rewrite Hin; discriminate.
  - intros H. destruct (e_violation m) as [|r rs]; [reflexivity|]. exfalso.
    apply (H {| o_severity := severity_iri Violation; o_id := level_name Violation ++ "_" ++ dec 0; o_res := r;
                o_ids := ids (level_name Violation ++ "_" ++ dec 0) (r_tree r) |}); [|reflexivity].
    simpl. now left.
Qed.

(* each result carries the severity of the list it came from; the three lists are kept, in order *)
Theorem severities m c :
  map (fun o => (o_severity o, o_res o)) (results_of (build_report m c))
  = (map (fun r => (severity_iri Violation, r)) (e_violation m)
    ++ map (fun r => (severity_iri Warning, r)) (e_warning m)
    ++ map (fun r => (severity_iri Info, r)) (e_info m))%list.
Proof.
  rewrite results_of_build. unfold build_results. rewrite !map_app.
  assert (H : forall l rs i, map (fun o => (o_severity o, o_res o)) (build_level l i rs) = map (fun r => (severity_iri l, r)) rs).
  { intros l rs. induction rs as [|r rs IH]; simpl; intros i; [reflexivity|]. now rewrite IH. }
  now rewrite !H.
Qed.

(* warnings and infos never change conforms *)
Theorem conforms_ignores_warnings m w w' i i' c c' :
  rp_conforms (build_report {| e_profile := e_profile m; e_violation := e_violation m; e_warning := w; e_info := i |} c)
  = rp_conforms (build_report {| e_profile := e_profile m; e_violation := e_violation m; e_warning := w'; e_info := i' |} c').
Proof. reflexivity. Qed.

(* the result list is omitted exactly when it is empty (and the smaller context is used exactly then) *)
Theorem result_key_iff m c :
  (rp_result (build_report m c) = None <-> all_results m = [])
  /\ (forall rs, rp_result (build_report m c) = Some rs -> rs <> [])
  /\ (rp_conforms_context (build_report m c) = true <-> rp_result (build_report m c) = None).
Proof.
  assert (Hn : build_results m = [] <-> all_results m = []).
  { unfold build_results, all_results. split; intros H.
    - apply app_eq_nil in H as [H1 H]. apply app_eq_nil in H as [H2 H3].
      apply build_level_nil in H1, H2, H3. now rewrite H1, H2, H3.
    - apply app_eq_nil in H as [H1 H]. apply app_eq_nil in H as [H2 H3]. now rewrite H1, H2, H3. }
  unfold build_report. simpl. destruct (build_results m) eqn:E; simpl; repeat split; intros; try tauto; try discriminate; try congruence;
    try (apply Hn; reflexivity); try (match goal with H : all_results m = [] |- _ => apply Hn in H; discriminate end).
Qed.

Theorem header m c :
  rp_profile_name (build_report m c) = e_profile m
  /\ (rp_date_created (build_report m c) <> None <-> include_time c = true)
  /\ (forall t, rp_date_created (build_report m c) = Some t -> t = time_text c).
Proof.
  unfold build_report. simpl. destruct (include_time c); repeat split; intros; try congruence; try discriminate.
Qed.

(* the report configuration changes nothing but dateCreated and the two schema IRIs of the context *)
Theorem config_changes_nothing_else m c c' :
  erase_config (build_report m c) = erase_config (build_report m c').
Proof. unfold erase_config, build_report. simpl. destruct (is_nil (build_results m)); reflexivity. Qed.

(* the executable specification accepts the model's report *)
Theorem model_meets_spec m c :
  forallb (fun r => wf_et (r_tree r)) (all_results m) = true -> spec_report m c (build_report m c) = true.
Proof.
  intros Hw. unfold spec_report. rewrite !andb_true_iff. repeat split.
  - apply Bool.eqb_true_iff. fold (results_of (build_report m c)).
    destruct (rp_conforms (build_report m c)) eqn:Ec.
    + symmetry. apply negb_true_iff. destruct (existsb _ _) eqn:Ex; [|reflexivity].
      apply existsb_exists in Ex as [o [Hin Ho]]. apply String.eqb_eq in Ho.
      exfalso. eapply (proj1 (conforms_iff m c)); eauto.
    + symmetry. apply negb_false_iff. rewrite results_of_build. unfold build_report in Ec. simpl in Ec.
      destruct (e_violation m) as [|r rs] eqn:Ev; [discriminate|]. unfold build_results. rewrite Ev. reflexivity.
  - unfold build_report. simpl. destruct (build_results m); reflexivity.
  - apply String.eqb_refl.
  - unfold build_report. simpl. destruct (include_time c); simpl; [apply String.eqb_refl|reflexivity].
  - assert (H := report_ids_unique m c Hw). clear Hw. induction (report_ids (build_report m c)) as [|x l IH]; simpl; [reflexivity|].
    inversion H; subst. rewrite IH by assumption. rewrite andb_true_r. apply negb_true_iff.
    destruct (in_strs x l) eqn:E; [|reflexivity]. apply in_strs_In in E. contradiction.
Qed.
