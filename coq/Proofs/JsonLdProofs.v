(* C05: the indexed graph depends on the document only through the SET of triples it states; with
   Proofs/GraphEquivProofs.v: two documents stating the same triples get the same verdicts. *)
From ACV Require Import Base.Strs Model.Graph Model.PathGrammar Model.PathSem Model.Dnf Model.Rules Model.JsonLd.
From ACV Require Import Proofs.PathSemProofs Proofs.RulesProofs Proofs.GraphEquivProofs.
Local Open Scope list_scope.

Lemma assoc_map_key {V} (f : string -> V) k l : NoDup l -> assoc k (map (fun p => (p, f p)) l) = if in_strs k l then Some (f k) else None.
Proof.
  induction l as [|x l IH]; simpl; intros Hnd; [reflexivity|]. inversion Hnd; subst.
  rewrite (String.eqb_sym k x). destruct (String.eqb x k) eqn:E.
  - apply String.eqb_eq in E. subst. reflexivity.
  - simpl. now apply IH.
Qed.

Lemma to_graph_wf ts : wf_graph (to_graph ts).
Proof.
  unfold wf_graph, to_graph. rewrite map_map. simpl. rewrite map_id. apply dedup_NoDup. apply str_eqb_eq.
Qed.

Lemma find_node_to_graph ts s : find_node (to_graph ts) s = if in_strs s (map subj ts) then Some (node_of ts s) else None.
Proof.
  unfold to_graph, find_node.
  assert (H : forall l, NoDup l -> List.find (fun n => String.eqb (nid n) s) (map (node_of ts) l) = if in_strs s l then Some (node_of ts s) else None).
  { induction l as [|x l IH]; simpl; intros Hnd; [reflexivity|]. inversion Hnd; subst.
    rewrite (String.eqb_sym s x). destruct (String.eqb x s) eqn:E.
    - apply String.eqb_eq in E. subst. reflexivity.
    - simpl. now apply IH. }
  rewrite H by (apply dedup_NoDup; apply str_eqb_eq).
  assert (Hm : in_strs s (dedup String.eqb (map subj ts)) = in_strs s (map subj ts)).
  { destruct (in_strs s (map subj ts)) eqn:E.
    - apply in_strs_In. apply (dedup_In String.eqb str_eqb_eq). now apply in_strs_In.
    - destruct (in_strs s (dedup String.eqb (map subj ts))) eqn:E2; [|reflexivity].
      apply (proj1 (in_strs_In _ _)) in E2. apply (proj1 (dedup_In String.eqb str_eqb_eq _ _)) in E2. apply (proj2 (in_strs_In _ _)) in E2. congruence. }
  now rewrite Hm.
Qed.

(* the node of subject s holds value v under p exactly when the triple (s, p, v) is stated *)
Lemma props_node_of ts s p v : In v (props (node_of ts s) p) <-> In (s, p, v) ts.
Proof.
  unfold props, node_of. simpl. rewrite assoc_map_key by (apply dedup_NoDup; apply str_eqb_eq).
  destruct (in_strs p (preds_of ts s)) eqn:E.
  - unfold values_of. rewrite (dedup_In value_eqb value_eqb_eq), in_map_iff. split.
    + intros [[[s' p'] v'] [Ev Hin]]. apply filter_In in Hin as [Hin Hc]. simpl in *. subst v'.
      apply andb_prop in Hc as [Hs Hp]. apply String.eqb_eq in Hs, Hp. simpl in *. now subst.
    + intros Hin. exists (s, p, v). split; [reflexivity|]. apply filter_In. split; [assumption|]. simpl. now rewrite !String.eqb_refl.
  - split; [intros []|]. intros Hin. exfalso.
    assert (in_strs p (preds_of ts s) = true); [|congruence].
    apply in_strs_In. unfold preds_of. apply (dedup_In String.eqb str_eqb_eq). apply in_map_iff. exists (s, p, v). split; [reflexivity|].
    apply filter_In. split; [assumption|]. simpl. apply String.eqb_refl.
Qed.

(* two triple lists with the same members (any order, any repetition) give graphs with the same triples *)
Theorem to_graph_same_triples ts ts' : (forall t, In t ts <-> In t ts') -> same_triples (to_graph ts) (to_graph ts').
Proof.
  intros H. split; [apply to_graph_wf|]. split; [apply to_graph_wf|].
  assert (Hs : forall s, in_strs s (map subj ts) = in_strs s (map subj ts')).
  { assert (D : forall a b, (forall t, In t a <-> In t b) -> forall s, in_strs s (map subj a) = true -> in_strs s (map subj b) = true).
    { intros a b Hab s Hin. apply in_strs_In in Hin. apply in_strs_In. apply in_map_iff in Hin as [t [E Ht]]. apply in_map_iff. exists t. split; [assumption|now apply Hab]. }
    intros s. destruct (in_strs s (map subj ts)) eqn:E.
    - symmetry. apply (D ts ts' H s E).
    - destruct (in_strs s (map subj ts')) eqn:E'; [|reflexivity]. apply (D ts' ts) in E'; [congruence|]. intros t. symmetry. apply H. }
  split.
  - intros id. unfold in_graph. rewrite !find_node_to_graph, Hs. now destruct (in_strs id (map subj ts')).
  - intros id n n' iri v Hf Hf'. rewrite find_node_to_graph in Hf, Hf'. rewrite <- Hs in Hf'.
    destruct (in_strs id (map subj ts)); [|discriminate]. inversion Hf; inversion Hf'; subst.
    rewrite !props_node_of. apply H.
Qed.

(* C05: same stated triples, same reported nodes, for every validation of every profile *)
Theorem same_denotation_same_results : forall d d', (forall t, In t (denote d) <-> In t (denote d')) ->
  forall cls f id, wf_form f = true ->
    ((exists n, In n (validation_results (flatten d) cls f) /\ nid n = id) <->
     (exists n', In n' (validation_results (flatten d') cls f) /\ nid n' = id)).
Proof. intros d d' H cls f id Hw. apply results_equiv; [|assumption]. now apply to_graph_same_triples. Qed.
Theorem same_denotation_same_verdict : forall d d', (forall t, In t (denote d) <-> In t (denote d')) ->
  forall f n pol, lsat (flatten d) pol f n = lsat (flatten d') pol f n.
Proof. intros d d' H f n pol. apply lsat_equiv. now apply to_graph_same_triples. Qed.

(* ------------------------------------------------------------------ the surface variations of the property *)
Definition same_members {X} (a b : list X) : Prop := forall x, In x a <-> In x b.

(* node order / the @graph wrapper / one node versus an array of nodes *)
Lemma surface_node_order ctx base ns ns' : (forall n, In n ns <-> In n ns') ->
  same_members (denote {| d_ctx := ctx; d_base := base; d_nodes := ns |}) (denote {| d_ctx := ctx; d_base := base; d_nodes := ns' |}).
Proof.
  intros H t. unfold denote. simpl. rewrite !in_flat_map. split; intros [n [Hn Ht]]; exists n; (split; [now apply H|assumption]).
Qed.
(* prefix compaction and @base-relative ids *)
Lemma surface_compact ctx base p l ns : assoc p ctx = Some ns -> expand ctx base (ICompact p l) = expand ctx base (IAbs (ns ++ l)%string).
Proof. intros H. simpl. now rewrite H. Qed.
(* @vocab compaction: a bare term no context entry defines stands for the vocabulary IRI followed by the term *)
Lemma surface_vocab ctx base l v : assoc l ctx = None -> assoc "@vocab"%string ctx = Some v ->
  expand ctx base (IVocab l) = expand ctx base (IAbs (v ++ l)%string).
Proof. intros H1 H2. simpl. now rewrite H1, H2. Qed.
Lemma surface_relative ctx base s : expand ctx base (IRel s) = expand ctx base (IAbs (base ++ s)%string).
Proof. reflexivity. Qed.
(* a node embedded in its parent versus listed flat and referenced *)
Lemma surface_embedded ctx base i ts p m :
  same_members (denote_node ctx base (SNode i ts [(p, [SEmbed m])]))
               (denote_node ctx base (SNode i ts [(p, [SRef (node_id m)])]) ++ denote_node ctx base m).
Proof.
  intros t. simpl. rewrite !in_app_iff. simpl. rewrite !in_app_iff. simpl. tauto.
Qed.
(* a repeated value / a single value versus a one-element array: the same list, or a list with the same members *)
Lemma surface_repeated_value ctx base i ts p v :
  same_members (denote_node ctx base (SNode i ts [(p, [v; v])])) (denote_node ctx base (SNode i ts [(p, [v])])).
Proof.
  intros t. simpl. rewrite !in_app_iff. simpl. rewrite ?in_app_iff. simpl. tauto.
Qed.

(* one node described by two node objects with the same @id (each holding part of the properties; the types stated once
   or twice): the same triples *)
Lemma denote_types_props ctx base i ts ps :
  denote_node ctx base (SNode i ts ps) = map (fun t => (expand ctx base i, "@type"%string, VStr (expand ctx base t))) ts ++ denote_node ctx base (SNode i [] ps).
Proof. reflexivity. Qed.
Lemma denote_props_app ctx base i ps1 ps2 t :
  In t (denote_node ctx base (SNode i [] (ps1 ++ ps2))) <->
  In t (denote_node ctx base (SNode i [] ps1)) \/ In t (denote_node ctx base (SNode i [] ps2)).
Proof.
  induction ps1 as [|[p vs] r IH]; [simpl; tauto|].
  simpl in *. rewrite !in_app_iff. rewrite IH. tauto.
Qed.
Lemma surface_split_description ctx base i ts ts2 ps1 ps2 : (forall t, In t ts2 -> In t ts) ->
  same_members (denote_node ctx base (SNode i ts (ps1 ++ ps2)))
               (denote_node ctx base (SNode i ts ps1) ++ denote_node ctx base (SNode i ts2 ps2)).
Proof.
  intros Hts t. rewrite !(denote_types_props ctx base i ts), (denote_types_props ctx base i ts2). rewrite !in_app_iff.
  rewrite (denote_props_app ctx base i ps1 ps2 t). rewrite !in_map_iff. split.
  - intros [H|[H|H]]; auto.
  - intros [[H|H]|[[x [E Hx]]|H]]; auto. left. exists x. auto.
Qed.
