(* What the text of the generated module is made from.
   [gen_abs]: the results Compile.gen wraps into text are, rule for rule, the results of DnfSorted.dispS under the operand
   order of the Go code ([sort_rules]: insertion sort on the String() keys, a permutation) - whatever the value of the name
   counter.  With DnfSortedProofs.mainS: for every well-formed rule the branches of the text report exactly the nodes at which
   the rule's literal-level reading is false (the statement DnfProofs.main makes about Dnf.disp), and the fuel Elab.compile
   gives is always enough. *)
From Coq Require Import List Bool Arith Lia Permutation.
Import ListNotations.
From ACV Require Import Base.Strs Model.Dnf Model.DnfSorted Model.RuleGen Model.Compile Proofs.DnfProofs Proofs.DnfFuel Proofs.DnfSortedProofs.

(* ---- the sort only permutes *)
Lemma insert_key_perm {X} k (x : X) l : Permutation (insert_key k x l) ((k, x) :: l).
Proof.
  induction l as [|[k' y] l IH]; cbn [insert_key]; [apply Permutation_refl|].
  destruct (String.ltb k k'); [apply Permutation_refl|].
  eapply Permutation_trans; [apply perm_skip, IH|apply perm_swap].
Qed.
Lemma sort_keyed_perm {X} (l : list (string * X)) : Permutation (sort_keyed l) l.
Proof.
  unfold sort_keyed.
  assert (H : forall acc, Permutation (fold_left (fun acc kx => insert_key (fst kx) (snd kx) acc) l acc) (acc ++ l)).
  { induction l as [|[k x] l IH]; intros acc; cbn [fold_left].
    - rewrite app_nil_r. apply Permutation_refl.
    - eapply Permutation_trans; [apply IH|]. cbn [fst snd].
      eapply Permutation_trans; [apply Permutation_app_tail, insert_key_perm|].
      cbn [app]. apply Permutation_middle. }
  apply (H []).
Qed.
Lemma sort_rules_perm l : Permutation (sort_rules l) l.
Proof.
  unfold sort_rules.
  eapply Permutation_trans; [apply Permutation_map, sort_keyed_perm|].
  rewrite map_map. cbn [snd]. rewrite map_id. apply Permutation_refl.
Qed.

(* ---- abstraction of the text results *)
Definition abs_t (t : tres) : gres catom cnest :=
  match t with TSimple s => GSimple (cs_origin s) | TBranch b => GBranch (map cs_origin b) end.
Definition abs_ts (ts : list tres) : list (gres catom cnest) := map abs_t ts.

Lemma as_branch_abs t : as_branch (abs_t t) = map cs_origin (t_branch t).
Proof. destruct t; reflexivity. Qed.

Lemma gen_atom_origin neg a c : cs_origin (fst (gen_atom neg a c)) = SAtom neg a.
Proof.
  unfold gen_atom. destruct (ca_kind a); cbn [fresh fst cs_origin]; try reflexivity.
  destruct (ca_path a); cbn [fresh fst cs_origin];
    match goal with |- context [if ?b then _ else _] => destruct b end; reflexivity.
Qed.

Lemma simples_abs rs : simples (map abs_ts rs) = map cs_origin (t_simples rs).
Proof.
  unfold simples, t_simples. induction rs as [|r rs IH]; cbn [map flat_map]; [reflexivity|].
  rewrite map_app, IH. f_equal. clear IH. unfold simples_of.
  induction r as [|t r IHr]; cbn [abs_ts map flat_map]; [reflexivity|].
  rewrite map_app. fold (abs_ts r). rewrite IHr. destruct t; reflexivity.
Qed.
Lemma branches_of_abs r : branches_of (abs_ts r) = map (map cs_origin) (flat_map (fun t => match t with TBranch b => [b] | TSimple _ => [] end) r).
Proof.
  unfold branches_of. induction r as [|t r IH]; cbn [abs_ts map flat_map]; [reflexivity|].
  rewrite map_app. fold (abs_ts r). rewrite IH. destruct t; reflexivity.
Qed.
Lemma branchsets_abs rs : branchsets (map abs_ts rs) = map (map (map cs_origin)) (t_branchsets rs).
Proof.
  unfold branchsets, t_branchsets. induction rs as [|r rs IH]; cbn [map flat_map]; [reflexivity|].
  rewrite map_app, IH. f_equal. rewrite branches_of_abs.
  destruct (flat_map _ r); reflexivity.
Qed.
Lemma expand_step_abs acc bs :
  expand_step (map (map cs_origin) acc) (map (map cs_origin) bs) = map (map cs_origin) (t_expand_step acc bs).
Proof.
  unfold expand_step, t_expand_step. induction bs as [|b bs IH]; cbn [map flat_map]; [reflexivity|].
  rewrite map_app, IH. f_equal. rewrite !map_map. apply map_ext. intros x. now rewrite map_app.
Qed.
Lemma expand_abs bss : forall acc,
  fold_left (@expand_step catom cnest) (map (map (map cs_origin)) bss) (map (map cs_origin) acc)
  = map (map cs_origin) (fold_left t_expand_step bss acc).
Proof.
  induction bss as [|bs bss IH]; intros acc; cbn [map fold_left]; [reflexivity|].
  rewrite expand_step_abs. apply IH.
Qed.

Notation dispC := (@dispS catom cnest sort_rules).

Lemma gen_all_abs (g : crule -> nat -> option (list tres * nat)) (d : crule -> option (list (gres catom cnest))) :
  (forall r c, match g r c with Some (ts, _) => d r = Some (abs_ts ts) | None => d r = None end) ->
  forall l c, match gen_all g l c with Some (rs, _) => all_with d l = Some (map abs_ts rs) | None => all_with d l = None end.
Proof.
  intros H. induction l as [|r l IH]; intros c; cbn [gen_all all_with]; [reflexivity|].
  specialize (H r c). destruct (g r c) as [[x c1]|].
  - rewrite H. specialize (IH c1). destruct (gen_all g l c1) as [[y c2]|]; rewrite IH; reflexivity.
  - rewrite H. reflexivity.
Qed.

Theorem gen_abs : forall fuel r c,
  match gen fuel r c with Some (ts, _) => dispC fuel r = Some (abs_ts ts) | None => dispC fuel r = None end.
Proof.
  induction fuel as [|fuel IH]; intros r c; [reflexivity|].
  destruct r as [n a|b l|b l|b i t e|b q p r]; cbn [gen DnfSorted.dispS].
  - pose proof (gen_atom_origin n a c) as Ho. destruct (gen_atom n a c) as [s c1]. cbn [fst] in Ho.
    cbn [abs_ts map abs_t]. now rewrite Ho.
  - destruct b; [apply IH|].
    pose proof (gen_all_abs (gen fuel) (dispC fuel) IH (sort_rules l) c) as Ha.
    destruct (gen_all (gen fuel) (sort_rules l) c) as [[rs c1]|]; rewrite Ha; [|reflexivity].
    cbn [option_map]. f_equal. unfold abs_ts. rewrite <- concat_map, !map_map.
    apply map_ext. intros t. cbn [abs_t]. now rewrite as_branch_abs.
  - destruct b; [apply IH|].
    pose proof (gen_all_abs (gen fuel) (dispC fuel) IH (sort_rules l) c) as Ha.
    destruct (gen_all (gen fuel) (sort_rules l) c) as [[rs c1]|]; rewrite Ha; [|reflexivity].
    cbn [option_map]. f_equal. unfold expand. rewrite simples_abs, branchsets_abs.
    change [map cs_origin (t_simples rs)] with (map (map cs_origin) [t_simples rs]).
    rewrite expand_abs. unfold t_expand, abs_ts. rewrite !map_map. reflexivity.
  - pose proof (IH (ROr b [negate i; t]) c) as H1.
    destruct (gen fuel (ROr b [negate i; t]) c) as [[a c1]|]; rewrite H1; [|reflexivity].
    destruct e as [e'|]; [|reflexivity].
    pose proof (IH (ROr b [i; e']) c1) as H2.
    destruct (gen fuel (ROr b [i; e']) c1) as [[b' c2]|]; rewrite H2; [|reflexivity].
    unfold abs_ts. now rewrite map_app.
  - cbn [fresh]. pose proof (IH r (S c)) as H1.
    destruct (gen fuel r (S c)) as [[rs c2]|]; rewrite H1; [|reflexivity].
    cbn [option_map abs_ts map abs_t nested_simple cs_origin].
    assert (E : map (@as_branch catom cnest) (abs_ts rs) = map (fun b0 => map cs_origin (t_branch b0)) rs).
    { unfold abs_ts. rewrite map_map. apply map_ext. intros t. apply as_branch_abs. }
    now rewrite E.
Qed.

(* ---- what the branches of the text mean, for every reading of the atoms *)
Section Meaning.
Variable N : Type.
Variables Fpos Fneg : catom -> N -> bool.
Variable children : cnest -> N -> list N.

Theorem gen_total : forall r c, gen (S (mu r)) r c <> None.
Proof.
  intros r c Hn. pose proof (gen_abs (S (mu r)) r c) as H. rewrite Hn in H.
  revert H. apply fuel_enoughS; [apply sort_rules_perm|lia].
Qed.

Theorem gen_fuel_irrelevant_for_success : forall fuel r c, mu r < fuel -> gen fuel r c <> None.
Proof.
  intros fuel r c Hm Hn. pose proof (gen_abs fuel r c) as H. rewrite Hn in H.
  revert H. apply fuel_enoughS; [apply sort_rules_perm|exact Hm].
Qed.

Theorem gen_meaning : forall fuel r c ts c',
  okg r -> gen fuel r c = Some (ts, c') ->
  forall n, reported Fpos Fneg children (abs_ts ts) n = negb (rs Fpos Fneg children true r n).
Proof.
  intros fuel r c ts c' Hok Hg. pose proof (gen_abs fuel r c) as H. rewrite Hg in H.
  apply (@mainS _ _ _ Fpos Fneg children sort_rules sort_rules_perm) in H; [|exact Hok]. apply H.
Qed.

(* the counter does not matter for what the branches mean *)
Theorem gen_meaning_any_counter : forall fuel r c1 c2 ts1 ts2 k1 k2,
  gen fuel r c1 = Some (ts1, k1) -> gen fuel r c2 = Some (ts2, k2) -> abs_ts ts1 = abs_ts ts2.
Proof.
  intros fuel r c1 c2 ts1 ts2 k1 k2 H1 H2.
  pose proof (gen_abs fuel r c1) as A1. pose proof (gen_abs fuel r c2) as A2. rewrite H1 in A1. rewrite H2 in A2. congruence.
Qed.
End Meaning.

(* ---- the fuel Elab.compile gives is enough: a profile the parser accepts always gets its module *)
From ACV Require Import Model.Yaml Model.ProfileParser Model.Elab.

Lemma validations_text_total fuel vs : forall c,
  (forall v, In v vs -> mu (cv_rule v) < fuel) -> validations_text fuel vs c <> None.
Proof.
  induction vs as [|v vs IH]; intros c H; cbn [validations_text]; [discriminate|].
  unfold validation_text.
  pose proof (gen_fuel_irrelevant_for_success fuel (cv_rule v) c (H v (or_introl eq_refl))) as Hg.
  destruct (gen fuel (cv_rule v) c) as [[rs c1]|]; [|congruence].
  specialize (IH c1 (fun v' Hv' => H v' (or_intror Hv'))).
  destruct (validations_text fuel vs c1) as [[ts c2]|]; [discriminate|congruence].
Qed.

Lemma list_max_ge l x : In x l -> x <= list_max l.
Proof.
  induction l as [|y l IH]; simpl; intros []; [subst; apply Nat.le_max_l|].
  specialize (IH H). pose proof (Nat.le_max_r y (list_max l)). unfold list_max in *. lia.
Qed.

Theorem compile_total : forall defaults preamble doc c p,
  elab_profile defaults doc = POk p -> exists text c', compile defaults preamble doc c = POk (text, c').
Proof.
  intros defaults preamble doc c p Hp. unfold compile. rewrite Hp. cbn [pbind]. unfold module_text.
  set (fuel := S (list_max (map (fun v => 2 * weight (cv_rule v) + 2) (cp_vals p)))).
  assert (Hf : forall v, In v (cp_vals p) -> mu (cv_rule v) < fuel).
  { intros v Hv. unfold fuel, mu.
    pose proof (list_max_ge (map (fun v => 2 * weight (cv_rule v) + 2) (cp_vals p)) (2 * weight (cv_rule v) + 2)
                  (in_map (fun v => 2 * weight (cv_rule v) + 2) _ _ Hv)) as Hle.
    assert (flag (cv_rule v) <= 1) by (destruct (cv_rule v) as [|[]|[]| |]; simpl; lia). lia. }
  pose proof (validations_text_total fuel (cp_vals p) c Hf) as Ht.
  destruct (validations_text fuel (cp_vals p) c) as [[ts c1]|]; [|congruence].
  eexists. eexists. reflexivity.
Qed.
