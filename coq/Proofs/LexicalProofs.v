(* C14: the four numbers of a rendered range are read back exactly, whatever their magnitude; the location of
   a result is the node's last lexical entry and the file that lists it (else the root file); no entry, no location. *)
From Coq Require Import NArith DecimalString DecimalN DecimalPos.
From ACV Require Import Base.Strs Model.Lexical.
Local Open Scope string_scope.

Fixpoint all_dig (s : string) : bool := match s with EmptyString => true | String c r => is_dig c && all_dig r end.

Lemma string_of_uint_digits d : all_dig (NilEmpty.string_of_uint d) = true.
Proof. induction d; simpl; auto. Qed.
Lemma dec_digits n : all_dig (dec_n n) = true.
Proof. apply string_of_uint_digits. Qed.
Lemma dec_nonempty n : exists c r, dec_n n = String c r.
Proof.
  unfold dec_n. assert (H : N.to_uint n <> Decimal.Nil).
  { destruct n; simpl; [discriminate|apply DecimalPos.Unsigned.to_uint_nonnil]. }
  destruct (N.to_uint n); simpl; try congruence; eauto.
Qed.
Lemma num_dec n : num (dec_n n) = n.
Proof. unfold num, dec_n. rewrite NilEmpty.usu. apply DecimalN.Unsigned.of_to. Qed.

Lemma runs_some : forall d r c t, all_dig d = true -> is_dig c = false ->
  runs_acc (Some r) (d ++ String c t) = (r ++ d) :: runs_acc None t.
Proof.
  induction d as [|x d IH]; intros r c t Hd Hc; simpl.
  - rewrite Hc. now rewrite append_nil_r.
  - simpl in Hd. apply andb_prop in Hd as [Hx Hd]. rewrite Hx. rewrite IH by assumption.
    f_equal. now rewrite sappend_assoc.
Qed.
Lemma runs_none_digits : forall d c t, (exists x r, d = String x r) -> all_dig d = true -> is_dig c = false ->
  runs_acc None (d ++ String c t) = d :: runs_acc None t.
Proof.
  intros d c t [x [r ->]] Hd Hc. simpl in *. apply andb_prop in Hd as [Hx Hd]. rewrite Hx.
  now rewrite runs_some by assumption.
Qed.

(* the digit extraction inverts AMF's range rendering, for numbers of any size *)
Theorem extract4_render : forall l1 c1 l2 c2 : N, extract4 (render_range l1 c1 l2 c2) = Some (l1, c1, l2, c2).
Proof.
  intros. unfold extract4, digit_runs, render_range.
  cbn [append].
  assert (Hb : forall c t, is_dig c = false -> runs_acc None (String c t) = runs_acc None t) by (intros c t H; simpl; now rewrite H).
  rewrite !Hb by reflexivity.
  rewrite (runs_none_digits (dec_n l1)) by (auto using dec_nonempty, dec_digits).
  rewrite (runs_none_digits (dec_n c1)) by (auto using dec_nonempty, dec_digits).
  rewrite !Hb by reflexivity.
  rewrite (runs_none_digits (dec_n l2)) by (auto using dec_nonempty, dec_digits).
  rewrite (runs_none_digits (dec_n c2)) by (auto using dec_nonempty, dec_digits).
  now rewrite !num_dec.
Qed.

(* ------------------------------------------------------------------ which entry, which file *)
Lemma find_hd_filter {X} (p : X -> bool) l : List.find p l = hd_error (filter p l).
Proof. induction l as [|x l IH]; simpl; [reflexivity|]. destruct (p x); simpl; auto. Qed.
Lemma filter_rev {X} (p : X -> bool) l : filter p (rev l) = rev (filter p l).
Proof.
  induction l as [|x l IH]; simpl; [reflexivity|]. rewrite filter_app, IH. simpl.
  destruct (p x); simpl; [reflexivity|now rewrite app_nil_r].
Qed.
Lemma last_match_unique {X} (p : X -> bool) l e : filter p l = [e] -> last_match p l = Some e.
Proof. intros H. unfold last_match. rewrite find_hd_filter, filter_rev, H. reflexivity. Qed.
Lemma last_match_none {X} (p : X -> bool) l : filter p l = [] -> last_match p l = None.
Proof. intros H. unfold last_match. rewrite find_hd_filter, filter_rev, H. reflexivity. Qed.
Lemma last_match_last {X} (p : X -> bool) l e : p e = true -> last_match p (l ++ [e]) = Some e.
Proof. intros H. unfold last_match. rewrite rev_app_distr. simpl. now rewrite H. Qed.

Definition entries_for (inp : lex_input) (id : string) : list lex_entry :=
  filter (fun e => String.eqb (le_element e) id) (List.concat (li_source_maps inp)).
Definition files_listing (inp : lex_input) (id : string) : list (string * string) :=
  filter (fun p => String.eqb (fst p) id) (location_pairs inp).

(* a node with one lexical entry recording (l1,c1)-(l2,c2): the result carries exactly these numbers *)
Theorem range_exact : forall inp id e l1 c1 l2 c2,
  in_strs id (li_ids inp) = true -> entries_for inp id = [e] -> le_value e = render_range l1 c1 l2 c2 ->
  result_location inp id = Some (location_of inp id, (l1, c1, l2, c2)).
Proof.
  intros inp id e l1 c1 l2 c2 Hid He Hv. unfold result_location, lexical_lookup. rewrite Hid.
  rewrite (last_match_unique _ _ e He). rewrite Hv, extract4_render. reflexivity.
Qed.
(* several entries for one node (two source maps): the last one in document order decides *)
Theorem range_last_entry : forall inp id, in_strs id (li_ids inp) = true ->
  lexical_lookup inp id = option_map (fun e => (le_value e, location_of inp id))
                                      (last_match (fun e => String.eqb (le_element e) id) (List.concat (li_source_maps inp))).
Proof. intros inp id Hid. unfold lexical_lookup. rewrite Hid. now destruct (last_match _ _). Qed.

(* uri: the additional location that lists the node, otherwise the root location *)
Theorem uri_listed : forall inp id p, files_listing inp id = [p] -> location_of inp id = snd p.
Proof. intros inp id p H. unfold location_of. now rewrite (last_match_unique _ _ p H). Qed.
Theorem uri_root : forall inp id, files_listing inp id = [] ->
  location_of inp id = match li_root inp with Some r => r | None => "" end.
Proof. intros inp id H. unfold location_of. now rewrite (last_match_none _ _ H). Qed.

(* no lexical entry for the node, an entry whose element is not a node (property-level), or no source maps at
   all: no location *)
Theorem absent_no_entry : forall inp id, entries_for inp id = [] -> result_location inp id = None.
Proof.
  intros inp id H. unfold result_location, lexical_lookup. destruct (in_strs id (li_ids inp)); [|reflexivity].
  now rewrite (last_match_none _ _ H).
Qed.
Theorem absent_not_a_node : forall inp id, in_strs id (li_ids inp) = false -> result_location inp id = None.
Proof. intros inp id H. unfold result_location, lexical_lookup. now rewrite H. Qed.
Theorem absent_no_source_maps : forall inp id, li_source_maps inp = [] -> result_location inp id = None.
Proof. intros inp id H. apply absent_no_entry. unfold entries_for. now rewrite H. Qed.
