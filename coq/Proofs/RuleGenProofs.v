(* Every rule body of the shape Model/RuleGen.v writes is safe in the engine's sense, for every branch of well-scoped
   constraint snippets (count / length, pattern and datatype are), any number of message placeholders, any names. *)
From ACV Require Import Base.Strs Model.Report Model.Names Model.Escape Model.RuleGen Proofs.NamesProofs.
Local Open Scope list_scope.

Lemma safe_cons env d us r :
  safe_from env ((d, us) :: r) = true <-> (forall u, In u us -> In u env) /\ safe_from (d :: env) r = true.
Proof.
  cbn [safe_from]. rewrite andb_true_iff, forallb_forall. split; intros [H1 H2]; split; auto.
  - intros u Hu. apply in_strs_In. now apply H1.
  - intros u Hu. apply in_strs_In. now apply H1.
Qed.

(* a snippet is well-scoped over the node variable x: from any environment that holds x its statements are safe, and after
   them the variables its trace value reads are bound (continuation style: whatever comes next starts from a larger environment) *)
Definition ok (x : string) (s : snippet) : Prop :=
  forall env rest, In x env ->
    (forall env', incl env env' -> (forall u, In u (sn_value_uses s) -> In u env') -> safe_from env' rest = true) ->
    safe_from env (sn_du s ++ rest) = true.

Lemma count_snippet_ok x src rule n pv neg cond k cid tp : ok x (count_snippet x src rule n pv neg cond k cid tp).
Proof.
  intros env rest Hx Hrest. unfold count_snippet. cbn [sn_du sn_value_uses] in *. destruct pv; cbn [app].
  - apply safe_cons. split; [intros u [<-|[]]; exact Hx|]. apply safe_cons. split; [intros u [<-|[]]; now left|].
    apply safe_cons. split; [intros u [<-|[]]; now left|]. apply Hrest.
    + intros u Hu. right. right. right. exact Hu.
    + intros u [<-|[]]. right. now left.
  - apply safe_cons. split; [intros u [<-|[]]; exact Hx|]. apply safe_cons. split; [intros u [<-|[]]; now left|]. apply Hrest.
    + intros u Hu. right. right. exact Hu.
    + intros u [<-|[]]. right. now left.
Qed.
Lemma pattern_snippet_ok x src rule n neg lit shown tp : ok x (pattern_snippet x src rule n neg lit shown tp).
Proof.
  intros env rest Hx Hrest. unfold pattern_snippet. cbn [sn_du sn_value_uses app] in *.
  apply safe_cons. split; [intros u [<-|[]]; exact Hx|]. apply safe_cons. split; [intros u [<-|[]]; now left|].
  apply safe_cons. split; [intros u [<-|[]]; now left|]. apply Hrest.
  - intros u Hu. right. right. right. exact Hu.
  - intros u [<-|[]]. right. now left.
Qed.
Lemma datatype_snippet_ok x src rule n neg dt tp : ok x (datatype_snippet x src rule n neg dt tp).
Proof.
  intros env rest Hx Hrest. unfold datatype_snippet. cbn [sn_du sn_value_uses app] in *.
  apply safe_cons. split; [intros u [<-|[]]; exact Hx|]. apply safe_cons. split; [intros u [<-|[]]; now left|].
  apply safe_cons. split; [intros u [<-|[]]; now left|]. apply Hrest.
  - intros u Hu. right. right. right. exact Hu.
  - intros u [<-|[]]. right. now left.
Qed.

Lemma numeric_snippet_ok x src rule n neg cid op kt tp : ok x (numeric_snippet x src rule n neg cid op kt tp).
Proof.
  intros env rest Hx Hrest. unfold numeric_snippet. cbn [sn_du sn_value_uses app] in *.
  apply safe_cons. split; [intros u [<-|[]]; exact Hx|]. apply safe_cons. split; [intros u [<-|[]]; now left|].
  apply safe_cons. split; [intros u [<-|[]]; now left|]. apply Hrest.
  - intros u Hu. right. right. right. exact Hu.
  - intros u [<-|[]]. right. now left.
Qed.
Lemma in_snippet_ok x src rule n1 n2 neg vals tp : ok x (in_snippet x src rule n1 n2 neg vals tp).
Proof.
  intros env rest Hx Hrest. unfold in_snippet. cbn [sn_du sn_value_uses app] in *.
  apply safe_cons. split; [intros u [<-|[]]; exact Hx|]. apply safe_cons. split; [intros u [<-|[]]; now left|].
  apply safe_cons. split; [intros u [<-|[]]; now left|]. apply safe_cons. split; [intros u []|].
  apply safe_cons. split; [intros u [<-|[<-|[]]]; [now left|right; now left]|]. apply Hrest.
  - intros u Hu. do 5 right. exact Hu.
  - intros u [<-|[]]. right. right. now left.
Qed.

Lemma contains_snippet_ok all x src rule n1 n2 neg vals tp : ok x (contains_snippet all x src rule n1 n2 neg vals tp).
Proof.
  intros env rest Hx Hrest. unfold contains_snippet. cbn [sn_du sn_value_uses app] in *.
  apply safe_cons. split; [intros u [<-|[]]; exact Hx|]. apply safe_cons. split; [intros u [<-|[]]; now left|].
  apply safe_cons. split; [intros u [<-|[]]; right; now left|]. apply safe_cons. split; [intros u []|].
  apply safe_cons. split; [intros u [<-|[<-|[]]]; [now left|right; now left]|].
  apply safe_cons. split; [intros u [<-|[]]; right; right; now left|]. apply safe_cons. split; [intros u [<-|[]]; now left|].
  apply Hrest.
  - intros u Hu. do 7 right. exact Hu.
  - intros u [<-|[]]. now left.
Qed.

Lemma cmp_snippet_ok x sa ra sb rb neg cid op tp : ok x (cmp_snippet x sa ra sb rb neg cid op tp).
Proof.
  intros env rest Hx Hrest. unfold cmp_snippet. cbn [sn_du sn_value_uses app] in *.
  apply safe_cons. split; [intros u [<-|[]]; exact Hx|]. apply safe_cons. split; [intros u [<-|[]]; right; exact Hx|].
  apply safe_cons. split; [intros u [<-|[]]; right; now left|]. apply safe_cons. split; [intros u [<-|[]]; right; now left|].
  apply safe_cons. split; [intros u [<-|[<-|[]]]; [right; now left|now left]|]. apply Hrest.
  - intros u Hu. do 5 right. exact Hu.
  - intros u [<-|[<-|[]]]; [right; now left|right; right; now left].
Qed.

(* the constraints of a branch, each followed by its trace binding *)
Lemma branch_safe x : forall branch i env rest, In x env -> Forall (ok x) branch ->
  (forall env', incl env env' -> (forall j, i <= j < i + List.length branch -> In (result_var j) env') -> safe_from env' rest = true) ->
  safe_from env (branch_du i x branch ++ rest) = true.
Proof.
  induction branch as [|s r IH]; intros i env rest Hx Hok Hrest; cbn [branch_du app].
  - apply Hrest; [apply incl_refl|]. cbn. intros j Hj. lia.
  - inversion Hok as [|? ? Hs Hr]; subst. rewrite <- app_assoc. apply Hs; [exact Hx|]. intros env1 Hinc Huses. cbn [app].
    apply safe_cons. split.
    + intros u [<-|Hu]; [apply Hinc, Hx|now apply Huses].
    + apply IH; [right; apply Hinc, Hx|exact Hr|]. intros env2 Hinc2 Hres. apply Hrest.
      * intros u Hu. apply Hinc2. right. apply Hinc, Hu.
      * intros j Hj. cbn [List.length] in Hj. destruct (Nat.eq_dec j i) as [->|Hne].
        -- apply Hinc2. now left.
        -- apply Hres. lia.
Qed.

Lemma message_safe x m : forall env rest, In x env ->
  (forall env', incl env env' -> In "message"%string env' -> safe_from env' rest = true) ->
  safe_from env (message_du x m ++ rest) = true.
Proof.
  intros env rest Hx Hrest. unfold message_du. rewrite <- !app_assoc.
  (* the msg_var bindings: each needs x only *)
  assert (Hvars : forall l env0, In x env0 -> forall rest0,
            (forall env', incl env0 env' -> (forall j, In j l -> In (msg_var j) env') -> safe_from env' rest0 = true) ->
            safe_from env0 (map (fun j => (msg_var j, [x])) l ++ rest0) = true).
  { induction l as [|j l IHl]; intros env0 Hx0 rest0 H0; cbn [map app].
    - apply H0; [apply incl_refl|intros j []].
    - apply safe_cons. split; [intros u [<-|[]]; exact Hx0|]. apply IHl; [now right|]. intros env' Hinc Hall. apply H0.
      + intros u Hu. apply Hinc. now right.
      + intros j' [<-|Hj']; [apply Hinc; now left|now apply Hall]. }
  apply Hvars; [exact Hx|]. intros env1 Hinc Hall. destruct (Nat.eqb m 0) eqn:Em; cbn [app].
  - apply safe_cons. split; [intros u []|]. apply Hrest; [intros u Hu; right; apply Hinc, Hu|now left].
  - apply safe_cons. split.
    + intros u Hu. apply in_map_iff in Hu as [j [<- Hj]]. apply Hall, Hj.
    + apply safe_cons. split; [intros u [<-|[]]; now left|]. apply Hrest; [intros u Hu; right; right; apply Hinc, Hu|now left].
Qed.

Theorem rule_safe : forall x branch m, Forall (ok x) branch -> safe_from [] (rule_du x branch m) = true.
Proof.
  intros x branch m Hok. unfold rule_du. cbn [app]. apply safe_cons. split; [intros u []|].
  apply branch_safe; [now left|exact Hok|]. intros env1 Hinc1 Hres.
  apply message_safe; [apply Hinc1; now left|]. intros env2 Hinc2 Hmsg.
  apply safe_cons. split; [|reflexivity]. intros u [<-|[<-|Hu]]; [exact Hmsg|apply Hinc2, Hinc1; now left|].
  apply in_map_iff in Hu as [j [<- Hj]]. apply Hinc2, Hres. apply in_seq in Hj. lia.
Qed.

(* non-vacuity: the rule of `ex.a / ex.b: maxLength: 3` as the translator writes it (numbers 1 and 2, one message placeholder) *)
Example rule_lines_example :
  rule_lines "violation" "x" "http://example.org/ns#T" "v"
    [count_snippet "x" "ex.a / ex.b" "gen_path_set_rule_2" 1 true false "<=" 3 "maxLength" "http://example.org/ns#a / http://example.org/ns#b"]
    ["http://example.org/ns#a"] "m %v"
  = ["violation[matches] {";
     "  target_class[x] with data.class as ""http://example.org/ns#T""";
     "  #  querying path: ex.a / ex.b";
     "  gen_propValues_1 = gen_path_set_rule_2 with data.sourceNode as x";
     "  gen_propValues_1_elem = gen_propValues_1[_]";
     "  not count(gen_propValues_1_elem) <= 3";
     "  _result_0 := trace(""maxLength"",""http://example.org/ns#a / http://example.org/ns#b"",x,{""@type"": [""reportSchema:TraceValueNode"", ""validation:TraceValue""], ""negated"":false,""condition"":""<="",""actual"": count(gen_propValues_1_elem),""expected"": 3})";
     "  msg_var_0 := object.get(x, ""http://example.org/ns#a"", ""null"")";
     "  message_vars := [msg_var_0]";
     "  message := sprintf(""m %v"", message_vars)";
     "  matches := error(""v"",x, message ,[_result_0])";
     "}"]%string.
Proof. vm_compute. reflexivity. Qed.
