(* C03 on the bytes: what the report node ReportJson.build_report_json builds says, for every value the policy can return and
   every configuration. *)
From Coq Require Import List Bool Arith Lia.
Import ListNotations.
From ACV Require Import Base.Strs Model.Report Model.ReportJson.
Local Open Scope list_scope.

Lemma jget_jset_same k v l : jget k (jset k v l) = Some v.
Proof.
  induction l as [|[k' v'] l IH]; cbn [jset jget].
  - now rewrite String.eqb_refl.
  - destruct (String.eqb k' k) eqn:E; cbn [jget]; [now rewrite String.eqb_refl|now rewrite E].
Qed.
Lemma jget_jset_other k k' v l : k <> k' -> jget k' (jset k v l) = jget k' l.
Proof.
  intros Hne. induction l as [|[k0 v0] l IH]; cbn [jset jget].
  - destruct (String.eqb k k') eqn:E; [apply String.eqb_eq in E; contradiction|reflexivity].
  - destruct (String.eqb k0 k) eqn:E; cbn [jget].
    + apply String.eqb_eq in E. subst k0.
      destruct (String.eqb k k') eqn:E2; [apply String.eqb_eq in E2; contradiction|reflexivity].
    + destruct (String.eqb k0 k'); [reflexivity|exact IH].
Qed.

(* a string-valued field survives defineIdRecursively *)
Lemma define_ids_keeps_strings fields id k s :
  k <> "@id"%string -> jget k fields = Some (JStr s) ->
  match define_ids (JObj fields) id with JObj fields' => jget k fields' = Some (JStr s) | _ => False end.
Proof.
  intros Hk Hg. cbn [define_ids]. destruct (has_key "@type" fields); [|exact Hg].
  rewrite jget_jset_other by (intros E; apply Hk; now symmetry).
  induction fields as [|[k0 v0] fields IH]; [discriminate|].
  cbn [jget] in *. destruct (String.eqb k0 k); [inversion Hg; subst; reflexivity|apply IH, Hg].
Qed.

(* every result carries the severity of the level it was returned under *)
Theorem result_severity l i raw r : build_validation l i raw = Some r ->
  match r with JObj fields => jget "resultSeverity" fields = Some (JStr (severity_iri l)) | _ => False end.
Proof.
  unfold build_validation. destruct raw as [| | | |items|fields]; try discriminate. intros H. inversion H; subst; clear H.
  apply define_ids_keeps_strings; [discriminate|apply jget_jset_same].
Qed.

Lemma build_level_json_length l : forall rs i out, build_level_json l i rs = Some out -> List.length out = List.length rs.
Proof.
  induction rs as [|r rs IH]; intros i out H; cbn [build_level_json] in H.
  - inversion H; reflexivity.
  - destruct (build_validation l i r); [|discriminate]. destruct (build_level_json l (S i) rs) eqn:E; [|discriminate].
    inversion H; subst. cbn [List.length]. f_equal. eapply IH, E.
Qed.
Lemma build_level_json_severity l : forall rs i out, build_level_json l i rs = Some out ->
  Forall (fun r => match r with JObj fields => jget "resultSeverity" fields = Some (JStr (severity_iri l)) | _ => False end) out.
Proof.
  induction rs as [|r rs IH]; intros i out H; cbn [build_level_json] in H.
  - inversion H; constructor.
  - destruct (build_validation l i r) eqn:Ev; [|discriminate]. destruct (build_level_json l (S i) rs) eqn:E; [|discriminate].
    inversion H; subst. constructor; [eapply result_severity, Ev|eapply IH, E].
Qed.

(* the report node, read back *)
Definition report_node (j : json) : option (list (string * json)) :=
  match j with
  | JArr [JObj top] => match jget "doc:encodes" top with Some (JArr [JObj report]) => Some report | _ => None end
  | _ => None
  end.
Definition context_of (j : json) : option json :=
  match j with JArr [JObj top] => jget "@context" top | _ => None end.

Theorem report_header : forall top name vs ws is c j,
  jget "profile" top = Some (JStr name) -> jget "violation" top = Some (JArr vs) ->
  jget "warning" top = Some (JArr ws) -> jget "info" top = Some (JArr is) ->
  build_report_json (JObj top) c = Some j ->
  exists report a b d,
    report_node j = Some report
    /\ build_level_json Violation 0 vs = Some a /\ build_level_json Warning 0 ws = Some b /\ build_level_json Info 0 is = Some d
    /\ jget "profileName" report = Some (JStr name)
    /\ jget "conforms" report = Some (JBool (match vs with [] => true | _ => false end))
    /\ jget "dateCreated" report = (if include_time c then Some (JStr (time_text c)) else None)
    /\ jget "result" report = (match a ++ b ++ d with [] => None | rs => Some (JArr rs) end)
    /\ context_of j = Some (JObj (match a ++ b ++ d with [] => conforms_context c | _ => validation_context c end)).
Proof.
  intros top name vs ws is c j Hp Hv Hw Hi H. unfold build_report_json in H. rewrite Hp, Hv, Hw, Hi in H.
  destruct (build_level_json Violation 0 vs) as [a|] eqn:Ea; [|discriminate].
  destruct (build_level_json Warning 0 ws) as [b|] eqn:Eb; [|discriminate].
  destruct (build_level_json Info 0 is) as [d|] eqn:Ed; [|discriminate].
  inversion H; subst; clear H. eexists. exists a, b, d. cbn [report_node jget String.eqb Ascii.eqb Bool.eqb context_of].
  split; [reflexivity|]. repeat split.
  - destruct (include_time c); destruct (a ++ b ++ d); reflexivity.
  - destruct (include_time c); destruct (a ++ b ++ d); reflexivity.
  - destruct (a ++ b ++ d); reflexivity.
Qed.

(* conforms is true exactly when no result carries the Violation severity *)
Theorem conforms_iff_no_violation : forall top name vs ws is c j report a b d,
  jget "profile" top = Some (JStr name) -> jget "violation" top = Some (JArr vs) ->
  jget "warning" top = Some (JArr ws) -> jget "info" top = Some (JArr is) ->
  build_report_json (JObj top) c = Some j ->
  report_node j = Some report ->
  build_level_json Violation 0 vs = Some a -> build_level_json Warning 0 ws = Some b -> build_level_json Info 0 is = Some d ->
  (jget "conforms" report = Some (JBool true) <->
   Forall (fun r => match r with JObj fields => jget "resultSeverity" fields <> Some (JStr (severity_iri Violation)) | _ => True end) (a ++ b ++ d)).
Proof.
  intros top name vs ws is c j report a b d Hp Hv Hw Hi H Hr Ea Eb Ed.
  destruct (report_header top name vs ws is c j Hp Hv Hw Hi H) as [report' [a' [b' [d' [Hr' [Ea' [Eb' [Ed' [_ [Hc _]]]]]]]]]].
  rewrite Hr in Hr'. inversion Hr'; subst report'. rewrite Hc.
  pose proof (build_level_json_length Violation vs 0 a Ea) as La.
  pose proof (build_level_json_severity Violation vs 0 a Ea) as Sa.
  pose proof (build_level_json_severity Warning ws 0 b Eb) as Sb.
  pose proof (build_level_json_severity Info is 0 d Ed) as Sd.
  split.
  - intros Hconf. destruct vs; [|discriminate]. destruct a; [|discriminate]. cbn [app].
    apply Forall_app. split; [eapply Forall_impl; [|exact Sb]|eapply Forall_impl; [|exact Sd]]; intros r Hr0; destruct r; auto; rewrite Hr0; discriminate.
  - intros Hall. destruct vs as [|v vs]; [reflexivity|]. destruct a as [|r a]; [discriminate|]. exfalso.
    inversion Hall as [|? ? Hr0 _]; subst. inversion Sa as [|? ? Hs _]; subst. destruct r; auto.
Qed.

Lemma jget_app k l1 l2 : jget k (l1 ++ l2) = match jget k l1 with Some v => Some v | None => jget k l2 end.
Proof. induction l1 as [|[k0 v0] l1 IH]; cbn [app jget]; [reflexivity|]. destruct (String.eqb k0 k); [reflexivity|exact IH]. Qed.

(* the report configuration changes dateCreated (and the two schema entries of the context), nothing else of the report node *)
Theorem config_changes_only_the_date : forall m c c' j j' r r',
  build_report_json m c = Some j -> build_report_json m c' = Some j' ->
  report_node j = Some r -> report_node j' = Some r' ->
  forall k, k <> "dateCreated"%string -> jget k r = jget k r'.
Proof.
  intros m c c' j j' r r' H H' Hr Hr' k Hk. unfold build_report_json in H, H'.
  destruct m as [| | | | |top]; try discriminate.
  destruct (jget "profile" top) as [[| | |name| |]|]; try discriminate.
  destruct (jget "violation" top) as [[| | | |vs|]|]; try discriminate.
  destruct (jget "warning" top) as [[| | | |ws|]|]; try discriminate.
  destruct (jget "info" top) as [[| | | |is|]|]; try discriminate.
  destruct (build_level_json Violation 0 vs) as [a|]; [|discriminate].
  destruct (build_level_json Warning 0 ws) as [b|]; [|discriminate].
  destruct (build_level_json Info 0 is) as [d|]; [|discriminate].
  inversion H; subst; clear H. inversion H'; subst; clear H'.
  cbn [report_node jget String.eqb Ascii.eqb Bool.eqb] in Hr, Hr'. inversion Hr; subst; clear Hr. inversion Hr'; subst; clear Hr'.
  assert (Hd : forall cc, jget k (if include_time cc then [("dateCreated"%string, JStr (time_text cc))] else []) = None).
  { intros cc. destruct (include_time cc); [|reflexivity]. cbn [jget].
    destruct (String.eqb "dateCreated" k) eqn:E; [apply String.eqb_eq in E; congruence|reflexivity]. }
  cbn [app jget].
  repeat match goal with |- context [String.eqb ?a k] => destruct (String.eqb a k); [reflexivity|] end.
  rewrite !jget_app, !Hd. reflexivity.
Qed.
