(* The fuelled PEG interpreter is sound and complete for the relational semantics; the relation is
   deterministic; a successful match consumes exactly the text of its tree. *)
From ACV Require Import Base.Strs Model.Peg.

Lemma strip_prefix_app : forall l s r, strip_prefix l s = Some r -> s = l ++ r.
Proof.
  induction l as [|a l IH]; intros s r H; simpl in *.
  - now inversion H.
  - destruct s as [|b s]; [discriminate|]. destruct (Ascii.eqb a b) eqn:E; [|discriminate].
    apply Ascii.eqb_eq in E. subst b. simpl. f_equal. now apply IH.
Qed.

(* ------------------------------------------------------------------ soundness *)
Lemma star_shape : forall g n e s t r, interp g n (PStar e) s = Ok t r -> exists ts, t = TList ts.
Proof.
  intros g [|n] e s t r H; simpl in H; [discriminate|].
  destruct (interp g n e s) as [| |t1 r1]; try discriminate.
  - inversion H; eauto.
  - destruct (interp g n (PStar e) r1) as [| |t2 r2]; try discriminate.
    destruct t2; try discriminate. inversion H; eauto.
Qed.

Definition sound_at (g : grammar) (f : pe -> string -> res) : Prop :=
  forall e s, (forall t r, f e s = Ok t r -> ev g e s (OOk t r)) /\ (f e s = Fail -> ev g e s OFail).

Lemma seq_with_sound : forall g f, sound_at g f -> forall l acc s,
  (forall t r, seq_with f l acc s = Ok t r -> evs g l acc s (OOk t r)) /\
  (seq_with f l acc s = Fail -> evs g l acc s OFail).
Proof.
  intros g f Hf. induction l as [|e l IH]; intros acc s; simpl.
  - split; [intros t r H; inversion H; constructor|discriminate].
  - destruct (f e s) as [| |t1 r1] eqn:E.
    + split; [intros; discriminate|discriminate].
    + split; [intros; discriminate|]. intros _. apply evs_fail. now apply Hf.
    + destruct (IH (t1 :: acc) r1) as [I1 I2]. split.
      * intros t r H. eapply evs_ok; [apply Hf; exact E|now apply I1].
      * intros H. eapply evs_ok; [apply Hf; exact E|now apply I2].
Qed.

Lemma choice_with_sound : forall g f, sound_at g f -> forall l s,
  (forall t r, choice_with f l s = Ok t r -> evc g l s (OOk t r)) /\
  (choice_with f l s = Fail -> evc g l s OFail).
Proof.
  intros g f Hf. induction l as [|e l IH]; intros s; simpl.
  - split; [intros; discriminate|intros; constructor].
  - destruct (f e s) as [| |t1 r1] eqn:E.
    + split; [intros; discriminate|discriminate].
    + destruct (IH s) as [I1 I2]. split.
      * intros t r H. apply evc_next; [now apply Hf|now apply I1].
      * intros H. apply evc_next; [now apply Hf|now apply I2].
    + split; [|discriminate]. intros t r H. inversion H; subst. apply evc_ok. now apply Hf.
Qed.

Theorem interp_sound : forall g fuel, sound_at g (interp g fuel).
Proof.
  intros g. unfold sound_at. induction fuel as [|n IH]; intros e s.
  - simpl. split; [intros; discriminate|discriminate].
  - destruct e; simpl.
    + (* lit *) destruct (strip_prefix s0 s) eqn:E; split; try discriminate.
      * intros t r H; inversion H; subst. now constructor.
      * intros _. now constructor.
    + (* class *) destruct s as [|c s]; [split; [intros; discriminate|intros; constructor]|].
      destruct (in_class c chars ranges) eqn:E; split; try discriminate.
      * intros t r H; inversion H; subst. now constructor.
      * intros _. now constructor.
    + (* seq *) destruct (seq_with_sound g _ IH l [] s) as [I1 I2]. split.
      * intros t r H. constructor. now apply I1.
      * intros H. constructor. now apply I2.
    + (* choice *) destruct (choice_with_sound g _ IH l s) as [I1 I2]. split.
      * intros t r H. constructor. now apply I1.
      * intros H. constructor. now apply I2.
    + (* star *) destruct (interp g n e s) as [| |t1 r1] eqn:E.
      * split; [intros; discriminate|discriminate].
      * split; [|discriminate]. intros t r H; inversion H; subst. apply ev_star_stop. now apply IH.
      * destruct (interp g n (PStar e) r1) as [| |t2 r2] eqn:E2; try (split; [intros; discriminate|discriminate]).
        destruct t2; try (split; [intros; discriminate|discriminate]).
        split; [|discriminate]. intros t r H; inversion H; subst.
        eapply ev_star_more; [apply IH; exact E|apply IH; exact E2].
    + (* plus *) destruct (interp g n e s) as [| |t1 r1] eqn:E.
      * split; [intros; discriminate|discriminate].
      * split; [intros; discriminate|]. intros _. apply ev_plus_fail. now apply IH.
      * destruct (interp g n (PStar e) r1) as [| |t2 r2] eqn:E2; try (split; [intros; discriminate|discriminate]).
        destruct t2; try (split; [intros; discriminate|discriminate]).
        split; [|discriminate]. intros t r H; inversion H; subst.
        eapply ev_plus_ok; [apply IH; exact E|apply IH; exact E2].
    + (* opt *) destruct (interp g n e s) as [| |t1 r1] eqn:E.
      * split; [intros; discriminate|discriminate].
      * split; [|discriminate]. intros t r H; inversion H; subst. apply ev_opt_none. now apply IH.
      * split; [|discriminate]. intros t r H; inversion H; subst. apply ev_opt_some. now apply IH.
    + (* ref *) destruct (lookup g name) as [e1|] eqn:L.
      * destruct (IH e1 s) as [I1 I2]. split.
        -- intros t r H. eapply ev_ref; [exact L|now apply I1].
        -- intros H. eapply ev_ref; [exact L|now apply I2].
      * split; [intros; discriminate|]. intros _. now apply ev_ref_missing.
    + (* act *) destruct (interp g n e s) as [| |t1 r1] eqn:E.
      * split; [intros; discriminate|discriminate].
      * split; [intros; discriminate|]. intros _. apply ev_act_fail. now apply IH.
      * split; [|discriminate]. intros t r H; inversion H; subst. apply ev_act_ok. now apply IH.
Qed.

(* ------------------------------------------------------------------ completeness (with a fuel floor) *)
Definition enough (g : grammar) (e : pe) (s : string) (o : outc) : Prop :=
  exists n, forall m, n <= m -> interp g m e s = res_of o.
Definition enough_seq (g : grammar) (l : list pe) (acc : list tree) (s : string) (o : outc) : Prop :=
  exists n, forall m, n <= m -> seq_with (interp g m) l acc s = res_of o.
Definition enough_choice (g : grammar) (l : list pe) (s : string) (o : outc) : Prop :=
  exists n, forall m, n <= m -> choice_with (interp g m) l s = res_of o.

Ltac fuel_S m Hm := destruct m as [|m]; [exfalso; lia|]; simpl.

Theorem interp_complete_all : forall g,
  (forall e s o, ev g e s o -> enough g e s o) /\
  (forall l acc s o, evs g l acc s o -> enough_seq g l acc s o) /\
  (forall l s o, evc g l s o -> enough_choice g l s o).
Proof.
  intros g. apply ev_mutind; unfold enough, enough_seq, enough_choice.
  - intros l s r H. exists 1. intros m Hm. fuel_S m Hm. now rewrite H.
  - intros l s H. exists 1. intros m Hm. fuel_S m Hm. now rewrite H.
  - intros c s cs rs H. exists 1. intros m Hm. fuel_S m Hm. now rewrite H.
  - intros c s cs rs H. exists 1. intros m Hm. fuel_S m Hm. now rewrite H.
  - intros cs rs. exists 1. intros m Hm. fuel_S m Hm. reflexivity.
  - intros l s o _ [n Hn]. exists (S n). intros m Hm. fuel_S m Hm. apply Hn. lia.
  - intros l s o _ [n Hn]. exists (S n). intros m Hm. fuel_S m Hm. apply Hn. lia.
  - intros e s _ [n Hn]. exists (S n). intros m Hm. fuel_S m Hm. rewrite Hn by lia. reflexivity.
  - intros e s t r ts r' _ [n1 H1] _ [n2 H2]. exists (S (n1 + n2)). intros m Hm. fuel_S m Hm.
    rewrite H1 by lia. simpl. rewrite H2 by lia. reflexivity.
  - intros e s _ [n Hn]. exists (S n). intros m Hm. fuel_S m Hm. rewrite Hn by lia. reflexivity.
  - intros e s t r ts r' _ [n1 H1] _ [n2 H2]. exists (S (n1 + n2)). intros m Hm. fuel_S m Hm.
    rewrite H1 by lia. simpl. rewrite H2 by lia. reflexivity.
  - intros e s t r _ [n Hn]. exists (S n). intros m Hm. fuel_S m Hm. rewrite Hn by lia. reflexivity.
  - intros e s _ [n Hn]. exists (S n). intros m Hm. fuel_S m Hm. rewrite Hn by lia. reflexivity.
  - intros n e s o L _ [k Hk]. exists (S k). intros m Hm. fuel_S m Hm. rewrite L. apply Hk. lia.
  - intros n s L. exists 1. intros m Hm. fuel_S m Hm. now rewrite L.
  - intros tag e s t r _ [n Hn]. exists (S n). intros m Hm. fuel_S m Hm. rewrite Hn by lia. reflexivity.
  - intros tag e s _ [n Hn]. exists (S n). intros m Hm. fuel_S m Hm. rewrite Hn by lia. reflexivity.
  - intros acc s. exists 0. intros m _. reflexivity.
  - intros e l acc s t r o _ [n1 H1] _ [n2 H2]. exists (n1 + n2). intros m Hm. simpl.
    rewrite H1 by lia. simpl. apply H2. lia.
  - intros e l acc s _ [n Hn]. exists n. intros m Hm. simpl. rewrite Hn by lia. reflexivity.
  - intros s. exists 0. intros m _. reflexivity.
  - intros e l s t r _ [n Hn]. exists n. intros m Hm. simpl. rewrite Hn by lia. reflexivity.
  - intros e l s o _ [n1 H1] _ [n2 H2]. exists (n1 + n2). intros m Hm. simpl.
    rewrite H1 by lia. simpl. apply H2. lia.
Qed.

Theorem interp_complete : forall g e s o, ev g e s o -> exists n, forall m, n <= m -> interp g m e s = res_of o.
Proof. intros g. exact (proj1 (interp_complete_all g)). Qed.

Theorem ev_deterministic : forall g e s o1 o2, ev g e s o1 -> ev g e s o2 -> o1 = o2.
Proof.
  intros g e s o1 o2 H1 H2.
  destruct (interp_complete _ _ _ _ H1) as [n1 E1]. destruct (interp_complete _ _ _ _ H2) as [n2 E2].
  specialize (E1 (n1 + n2) ltac:(lia)). specialize (E2 (n1 + n2) ltac:(lia)).
  rewrite E1 in E2. destruct o1, o2; simpl in E2; congruence.
Qed.

(* a definite answer is stable under more fuel *)
Theorem interp_fuel_mono : forall g n e s r,
  interp g n e s = r -> r <> OutOfFuel -> exists n0, forall m, n0 <= m -> interp g m e s = r.
Proof.
  intros g n e s r H Hr. destruct r as [| |t rest]; [congruence| |].
  - apply interp_sound in H. apply (interp_complete g e s OFail H).
  - apply interp_sound in H. apply (interp_complete g e s (OOk t rest) H).
Qed.

(* ------------------------------------------------------------------ consumed text *)
Lemma texts_app : forall a b, texts (a ++ b) = texts a ++ texts b.
Proof.
  induction a as [|t a IH]; intros b; simpl; [reflexivity|].
  rewrite IH. now rewrite sappend_assoc.
Qed.

Definition consumes (s : string) (o : outc) : Prop :=
  match o with OOk t r => s = text t ++ r | OFail => True end.
Definition consumes_seq (acc : list tree) (s : string) (o : outc) : Prop :=
  match o with
  | OOk t r => exists ts, t = TList (rev acc ++ ts) /\ s = texts ts ++ r
  | OFail => True
  end.

Theorem consumed_all : forall g,
  (forall e s o, ev g e s o -> consumes s o) /\
  (forall l acc s o, evs g l acc s o -> consumes_seq acc s o) /\
  (forall l s o, evc g l s o -> consumes s o).
Proof.
  intros g. apply ev_mutind; unfold consumes, consumes_seq; simpl; auto.
  - intros l s r H. now apply strip_prefix_app.
  - intros l s o _ H. destruct o as [|t r]; auto. destruct H as [ts [-> ->]]. reflexivity.
  - intros e s t r ts r' _ H1 _ H2. subst s r. now rewrite sappend_assoc.
  - intros e s t r ts r' _ H1 _ H2. subst s r. now rewrite sappend_assoc.
  - intros acc s. exists []. now rewrite app_nil_r.
  - intros e l acc s t r o _ H1 _ H2. destruct o as [|t' r']; auto.
    destruct H2 as [ts [-> ->]]. exists (t :: ts). split.
    + simpl. now rewrite <- app_assoc.
    + subst s. simpl. now rewrite sappend_assoc.
Qed.

Theorem consumed : forall g e s t r, ev g e s (OOk t r) -> s = text t ++ r.
Proof. intros g e s t r H. exact (proj1 (consumed_all g) e s _ H). Qed.
