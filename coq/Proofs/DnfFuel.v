(* Termination of Dispatch: the generator recurses through Negate() (and of a negated body, the two
   material implications of a conditional), so [Dnf.disp] runs on fuel.  [mu] is a measure that
   negation does not increase and every recursive call strictly decreases; hence [S (mu r)] units of
   fuel always suffice - the out-of-fuel answer never occurs for the fuel the model uses. *)
From Coq Require Import List Bool Arith Lia.
Import ListNotations.
From ACV Require Import Model.Dnf.

Section DnfFuel.
Variables (A P : Type).
Notation rule := (rule A P).
Notation negate := (@negate A P).
Notation disp := (@disp A P).
Notation all_with := (@all_with A P).

Notation sum_with := (@sum_with A P).
Notation weight := (@weight A P).
Notation flag := (@flag A P).
Notation mu := (@mu A P).

Lemma sum_with_le f g l : (forall x, In x l -> f x <= g x) -> sum_with f l <= sum_with g l.
Proof.
  induction l as [|x l IH]; simpl; intros H; [lia|].
  pose proof (H x (or_introl eq_refl)). assert (sum_with f l <= sum_with g l) by (apply IH; auto). lia.
Qed.
Lemma sum_with_map f (h : rule -> rule) l : sum_with f (map h l) = sum_with (fun x => f (h x)) l.
Proof. induction l; simpl; auto. Qed.
Lemma sum_with_in f l x : In x l -> f x <= sum_with f l.
Proof. induction l as [|y l IH]; simpl; intros []; [subst; lia|]. specialize (IH H). lia. Qed.

Lemma weight_pos r : 1 <= weight r.
Proof. destruct r as [| | | ? ? ? [e|] |]; simpl; lia. Qed.

Lemma weight_negate : forall r, weight (negate r) <= weight r.
Proof.
  induction r using rule_ind2; simpl; try lia.
  - rewrite sum_with_map. rewrite Forall_forall in H. pose proof (sum_with_le (fun x => weight (negate x)) weight l H). lia.
  - rewrite sum_with_map. rewrite Forall_forall in H. pose proof (sum_with_le (fun x => weight (negate x)) weight l H). lia.
  - destruct e as [e'|]; simpl in *.
    + destruct n; simpl; lia.
    + lia.
Qed.

Lemma all_with_some (d : rule -> option (list (gres A P))) l :
  (forall x, In x l -> d x <> None) -> all_with d l <> None.
Proof.
  induction l as [|x l IH]; simpl; intros H; [discriminate|].
  destruct (d x) eqn:E; [|exfalso; eapply H; eauto].
  destruct (all_with d l) eqn:E2; [discriminate|]. exfalso. apply IH; auto.
Qed.

Lemma mu_negated_list l : mu (ROr false (map negate l)) <= 2 * (1 + sum_with weight l)
                       /\ mu (RAnd false (map negate l)) <= 2 * (1 + sum_with weight l).
Proof.
  unfold mu. cbn [weight flag]. rewrite sum_with_map.
  pose proof (sum_with_le (fun x => weight (negate x)) weight l (fun x _ => weight_negate x)) as H.
  revert H. generalize (sum_with (fun x : rule => weight (negate x)) l) (sum_with weight l). intros a b H. lia.
Qed.

Theorem fuel_enough : forall fuel r, mu r < fuel -> disp fuel r <> None.
Proof.
  induction fuel as [|fuel IH]; intros r Hm; [lia|].
  assert (Hl : forall l, 2 * sum_with weight l + 1 < fuel -> all_with (disp fuel) l <> None).
  { intros l Hlt. apply all_with_some. intros x Hx. apply IH.
    pose proof (sum_with_in weight l x Hx). unfold mu.
    assert (flag x <= 1) by (destruct x as [|[]|[]| |]; simpl; lia). lia. }
  destruct r as [n a|b l|b l|b i t e|b q p r]; cbn [disp].
  - discriminate.
  - destruct b.
    + apply IH. destruct (mu_negated_list l). unfold mu in Hm; simpl in Hm. lia.
    + assert (Hx : all_with (disp fuel) l <> None) by (apply Hl; unfold mu in Hm; simpl in Hm; lia).
      destruct (all_with (disp fuel) l); [discriminate|congruence].
  - destruct b.
    + apply IH. destruct (mu_negated_list l). unfold mu in Hm; simpl in Hm. lia.
    + assert (Hx : all_with (disp fuel) l <> None) by (apply Hl; unfold mu in Hm; simpl in Hm; lia).
      destruct (all_with (disp fuel) l); [discriminate|congruence].
  - pose proof (weight_negate i) as Hni.
    assert (H1 : disp fuel (ROr b [negate i; t]) <> None).
    { apply IH. unfold mu in *. destruct e, b; simpl in *; lia. }
    destruct (disp fuel (ROr b [negate i; t])); [|congruence].
    destruct e as [e'|]; [|discriminate].
    assert (H2 : disp fuel (ROr b [i; e']) <> None).
    { apply IH. unfold mu in *. destruct b; simpl in *; lia. }
    destruct (disp fuel (ROr b [i; e'])); [discriminate|congruence].
  - assert (H1 : disp fuel r <> None).
    { apply IH. unfold mu in *. simpl in Hm. assert (flag r <= 1) by (destruct r as [|[]|[]| |]; simpl; lia). lia. }
    destruct (disp fuel r); [discriminate|congruence].
Qed.

End DnfFuel.
