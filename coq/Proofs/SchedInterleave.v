(* The two models of the shared counter agree: the numbers Sched.v records for a compilation (a log kept in the world) are the
   numbers Interleave.v computes for the same thread from the schedule alone. *)
From ACV Require Import Base.Strs Model.Sched Proofs.SchedProofs.
From ACV Require Model.Interleave.
Local Open Scope list_scope.
Module I := Interleave.

Definition embed (s : schedule) : I.schedule unit := map (fun ta => (fst ta, I.OGen (fun _ (p : unit) => p))) s.

Lemma numbers_of_app t w l :
  flat_map (fun tn : nat * nat => if Nat.eqb (fst tn) t then [snd tn] else []) (handed w ++ l)
  = numbers_of t w ++ flat_map (fun tn : nat * nat => if Nat.eqb (fst tn) t then [snd tn] else []) l.
Proof. unfold numbers_of. apply flat_map_app. Qed.

Lemma numbers_of_run : forall s w t, only_gen s = true ->
  numbers_of t (run w s) = numbers_of t w ++ I.handed (counter w) t (embed s).
Proof.
  induction s as [|[u a] s IH]; intros w t Hg; [cbn; now rewrite app_nil_r|].
  cbn [only_gen forallb snd] in Hg. destruct a; try discriminate.
  change (run w ((u, AGen) :: s)) with (run (step w u AGen) s). rewrite IH by exact Hg.
  cbn [embed map fst snd I.handed step counter]. unfold numbers_of at 1. cbn [handed step].
  rewrite numbers_of_app. cbn [flat_map fst snd]. rewrite app_nil_r, <- app_assoc. reflexivity.
Qed.

Theorem sched_numbers_are_interleave_handed : forall s c t, only_gen s = true ->
  numbers_of t (run {| counter := c; handed := [] |} s) = I.handed c t (embed s).
Proof. intros s c t Hg. rewrite numbers_of_run by exact Hg. reflexivity. Qed.
