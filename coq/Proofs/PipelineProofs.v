(* C04 / C09 / C11 / C17 over the pipeline model: for every entry point and every way the seven stages can
   end (3^7 fault assignments, a finite space enumerated completely and checked inside Coq), and for all
   stage oracles, texts, documents, configurations and histories at the function level. *)
From Coq Require Import ZArith Lia.
From ACV Require Import Base.Strs Model.Pipeline.
Local Open Scope list_scope.

Definition all_oc : list oc := [OOk; OErr; OPanic].
Definition all_faults : list faults :=
  flat_map (fun a => flat_map (fun b => flat_map (fun c => flat_map (fun d => flat_map (fun e => flat_map (fun g =>
  map (fun h => {| f_parse := a; f_generate := b; f_compile := c; f_decode := d; f_normalize := e; f_eval := g; f_build := h |})
  all_oc) all_oc) all_oc) all_oc) all_oc) all_oc) all_oc.
Lemma all_oc_complete o : In o all_oc.
Proof. destruct o; simpl; auto. Qed.
Lemma all_faults_complete f : In f all_faults.
Proof.
  destruct f as [a b c d e g h]. unfold all_faults.
  repeat (apply in_flat_map; eexists; split; [apply all_oc_complete|]).
  apply in_map_iff. eexists; split; [reflexivity|apply all_oc_complete].
Qed.
Definition all_entries : list entry := [EValidate; EValidateCompiled; ECompileProfile; ECompileThenValidate].
Lemma all_entries_complete e : In e all_entries.
Proof. destruct e; simpl; auto. Qed.

Lemma finite_check (P : entry -> faults -> bool) :
  forallb (fun e => forallb (P e) all_faults) all_entries = true -> forall e f, P e f = true.
Proof.
  intros H e f. rewrite forallb_forall in H. specialize (H e (all_entries_complete e)).
  rewrite forallb_forall in H. apply H, all_faults_complete.
Qed.

Definition is_panic (o : oc) : bool := match o with OPanic => true | _ => false end.
(* the two stages that run inside the policy engine without a recover around them *)
Definition engine_total (f : faults) : bool := negb (is_panic (f_compile f)) && negb (is_panic (f_eval f)).
Definition kind_eqb (a b : kind) : bool :=
  match a, b with KValue, KValue | KError, KError | KEscaped, KEscaped => true | _, _ => false end.

(* C11 + C17: the channel trace of every entry point under every fault assignment meets the specification *)
Theorem trace_meets_spec : forall e f, engine_total f = true ->
  spec_trace e (fst (run_entry as_coded e f)) (snd (run_entry as_coded e f)) = true.
Proof.
  intros e f. assert (H : implb (engine_total f) (spec_trace e (fst (run_entry as_coded e f)) (snd (run_entry as_coded e f))) = true).
  { apply (finite_check (fun e f => implb (engine_total f) (spec_trace e (fst (run_entry as_coded e f)) (snd (run_entry as_coded e f))))).
    vm_compute. reflexivity. }
  intros Ht. rewrite Ht in H. exact H.
Qed.

Theorem never_escapes : forall e f, engine_total f = true -> snd (run_entry as_coded e f) <> KEscaped.
Proof.
  intros e f Ht E. pose proof (trace_meets_spec e f Ht) as H. unfold spec_trace in H. rewrite E in H.
  rewrite andb_false_r in H. discriminate.
Qed.

Theorem escapes_only_from_engine : forall e f, snd (run_entry as_coded e f) = KEscaped -> engine_total f = false.
Proof.
  intros e f E. destruct (engine_total f) eqn:Ht; [|reflexivity]. exfalso. now apply (never_escapes e f Ht).
Qed.

(* the pieces of the specification, spelled out *)
Theorem sends_prefix : forall e f, engine_total f = true -> is_prefix (sends (fst (run_entry as_coded e f))) (order_of e) = true.
Proof. intros e f Ht. pose proof (trace_meets_spec e f Ht) as H. unfold spec_trace in H. now repeat (apply andb_prop in H as [H _]). Qed.
Theorem sends_bracketed : forall e f, engine_total f = true -> bracketed None (sends (fst (run_entry as_coded e f))) = true.
Proof. intros e f Ht. pose proof (trace_meets_spec e f Ht) as H. unfold spec_trace in H. apply andb_prop in H as [H _]. now apply andb_prop in H as [_ H]. Qed.
Theorem closed_exactly_once : forall e f, engine_total f = true -> e <> ECompileProfile ->
  closes (fst (run_entry as_coded e f)) = 1 /\ last_is_close (fst (run_entry as_coded e f)) = true.
Proof.
  intros e f Ht Hne. pose proof (trace_meets_spec e f Ht) as H. pose proof (never_escapes e f Ht) as Hn.
  unfold spec_trace in H. apply andb_prop in H as [_ H].
  destruct (snd (run_entry as_coded e f)); [destruct e; try congruence| |congruence];
    apply andb_prop in H as [H1 H2]; apply Nat.eqb_eq in H1; auto.
Qed.
Theorem compile_closes_iff_fails : forall f, engine_total f = true ->
  (snd (run_entry as_coded ECompileProfile f) = KError -> closes (fst (run_entry as_coded ECompileProfile f)) = 1 /\ last_is_close (fst (run_entry as_coded ECompileProfile f)) = true)
  /\ (snd (run_entry as_coded ECompileProfile f) = KValue -> closes (fst (run_entry as_coded ECompileProfile f)) = 0).
Proof.
  intros f Ht. pose proof (trace_meets_spec ECompileProfile f Ht) as H. unfold spec_trace in H. apply andb_prop in H as [_ H].
  split; intros E; rewrite E in H.
  - apply andb_prop in H as [H1 H2]. apply Nat.eqb_eq in H1. auto.
  - now apply Nat.eqb_eq in H.
Qed.

(* without the recover at the stage functions the statement is false (the repaired defects D12 / D19) *)
Definition no_recover : recovers :=
  {| r_generate_rego := false; r_compile_rego := false; r_process_input := false; r_execute := false; r_process_result := false |}.
Theorem refuted_without_recover :
  let f := {| f_parse := OOk; f_generate := OPanic; f_compile := OOk; f_decode := OOk; f_normalize := OOk; f_eval := OOk; f_build := OOk |} in
  engine_total f = true /\ snd (run_entry no_recover EValidate f) = KEscaped /\ closes (fst (run_entry no_recover EValidate f)) = 0.
Proof. vm_compute. repeat split. Qed.

(* C04: unreadable data never yields a report *)
Definition data_unreadable (f : faults) : bool :=
  match f_decode f with OOk => (match f_normalize f with OOk => false | _ => true end) | _ => true end.
Definition validating (e : entry) : bool := match e with ECompileProfile => false | _ => true end.
Theorem unreadable_data_no_report : forall e f, validating e = true -> data_unreadable f = true ->
  snd (run_entry as_coded e f) <> KValue.
Proof.
  intros e f He Hd E.
  assert (H : implb (validating e && data_unreadable f) (negb (kind_eqb (snd (run_entry as_coded e f)) KValue)) = true).
  { apply (finite_check (fun e f => implb (validating e && data_unreadable f) (negb (kind_eqb (snd (run_entry as_coded e f)) KValue)))).
    vm_compute. reflexivity. }
  rewrite He, Hd, E in H. discriminate.
Qed.

(* ------------------------------------------------------------------ function level *)
Section Oracles.
Variables (Text Data P M Q J I R Cfg : Type).
Variable parse : Text -> outcome P.
Variable generate : P -> outcome M.
Variable compile : M -> outcome Q.
Variable decode : Data -> outcome J.
Variable normalize : J -> outcome I.
Variable eval : Q -> I -> outcome R.
Variable build : R -> Cfg -> outcome string.
Notation validate_fn := (validate_fn parse generate compile decode normalize eval build).
Notation validate_compiled_fn := (validate_compiled_fn decode normalize eval build).
Notation compiled_of := (compiled_of parse generate compile).
Notation data_faults := (data_faults decode normalize eval build).
Notation profile_faults := (profile_faults parse generate compile).
Notation report_of := (report_of decode normalize eval build).
Notation run_history := (run_history decode normalize eval build).

Lemma validate_compiled_data_only rc f g :
  f_decode f = f_decode g -> f_normalize f = f_normalize g -> f_eval f = f_eval g -> f_build f = f_build g ->
  validate_compiled rc f = validate_compiled rc g.
Proof.
  intros H1 H2 H3 H4. unfold validate_compiled, process_input, execute_validation, process_result.
  now rewrite H1, H2, H3, H4.
Qed.

(* C04 at the function level: if no JSON value can be decoded, or JSON-LD processing rejects it (error or
   panic), neither validating entry point returns a report - whatever the other stages do *)
Theorem C04_compiled : forall q d c, (forall j, decode d <> Ok j) \/ (exists j, decode d = Ok j /\ forall i, normalize j <> Ok i) ->
  forall s, snd (validate_compiled_fn as_coded q d c) <> Report s.
Proof.
  intros q d c H s. unfold Pipeline.validate_compiled_fn.
  destruct (validate_compiled as_coded (data_faults q d c)) as [t k] eqn:E. simpl.
  assert (Hk : k <> KValue).
  { pose proof (unreadable_data_no_report EValidateCompiled (data_faults q d c) eq_refl) as U. simpl in U. rewrite E in U. simpl in U.
    apply U. unfold data_unreadable, Pipeline.data_faults. simpl.
    destruct H as [H|[j [Hj H]]].
    - destruct (decode d) as [j| |]; [exfalso; eapply H; eauto|reflexivity|reflexivity].
    - rewrite Hj. simpl. destruct (normalize j) as [i| |]; [exfalso; eapply H; eauto|reflexivity|reflexivity]. }
  destruct k; simpl; congruence.
Qed.

Theorem C04_text : forall t d c, (forall j, decode d <> Ok j) \/ (exists j, decode d = Ok j /\ forall i, normalize j <> Ok i) ->
  forall s, snd (validate_fn as_coded t d c) <> Report s.
Proof.
  intros t d c H s. unfold Pipeline.validate_fn. destruct (compiled_of t) as [q| |].
  - destruct (validate as_coded (profile_faults t (data_faults q d c))) as [tr k] eqn:E. simpl.
    assert (Hk : k <> KValue).
    { pose proof (unreadable_data_no_report EValidate (profile_faults t (data_faults q d c)) eq_refl) as U. simpl in U. rewrite E in U. simpl in U.
      apply U. unfold data_unreadable, Pipeline.profile_faults, Pipeline.data_faults. simpl.
      destruct H as [H|[j [Hj H]]].
      - destruct (decode d) as [j| |]; [exfalso; eapply H; eauto|reflexivity|reflexivity].
      - rewrite Hj. simpl. destruct (normalize j) as [i| |]; [exfalso; eapply H; eauto|reflexivity|reflexivity]. }
    destruct k; simpl; congruence.
  - destruct (validate as_coded (profile_faults t ok_faults)) as [tr k]. simpl. destruct k; simpl; congruence.
  - destruct (validate as_coded (profile_faults t ok_faults)) as [tr k]. simpl. destruct k; simpl; congruence.
Qed.

Lemma validate_ok_profile rc f : f_parse f = OOk -> f_generate f = OOk -> f_compile f = OOk ->
  validate rc f = (map Send profile_order ++ fst (validate_compiled rc f), snd (validate_compiled rc f)).
Proof.
  intros H1 H2 H3. unfold validate, process_profile, generate_rego, compile_rego. rewrite H1, H2, H3.
  cbn [step]. destruct (validate_compiled rc f) as [tr k]. reflexivity.
Qed.

Lemma compiled_profile_faults t q df : compiled_of t = Ok q ->
  f_parse (profile_faults t df) = OOk /\ f_generate (profile_faults t df) = OOk /\ f_compile (profile_faults t df) = OOk.
Proof.
  unfold Pipeline.compiled_of, Pipeline.profile_faults. cbn [f_parse f_generate f_compile].
  destruct (parse t) as [p| |]; try discriminate. cbn [bind_o bind_oc oc_of].
  destruct (generate p) as [m| |]; try discriminate. cbn [bind_o bind_oc oc_of].
  destruct (compile m); try discriminate. auto.
Qed.

(* C09: validating with the compiled profile gives what validating with the text gives *)
Theorem C09_equiv_both : forall rc t q d c, compiled_of t = Ok q ->
  validate_fn rc t d c = (map Send profile_order ++ fst (validate_compiled_fn rc q d c), snd (validate_compiled_fn rc q d c)).
Proof.
  intros rc t q d c Hq. unfold Pipeline.validate_fn, Pipeline.validate_compiled_fn. rewrite Hq.
  destruct (@compiled_profile_faults t q (data_faults q d c) Hq) as [H1 [H2 H3]].
  rewrite (validate_ok_profile rc _ H1 H2 H3).
  rewrite (validate_compiled_data_only rc (profile_faults t (data_faults q d c)) (data_faults q d c)) by reflexivity.
  destruct (validate_compiled rc (data_faults q d c)) as [tr k]. reflexivity.
Qed.
Theorem C09_equiv_result : forall rc t q d c, compiled_of t = Ok q ->
  snd (validate_fn rc t d c) = snd (validate_compiled_fn rc q d c).
Proof. intros rc t q d c H. now rewrite (@C09_equiv_both rc t q d c H). Qed.
Theorem C09_equiv_trace : forall rc t q d c, compiled_of t = Ok q ->
  fst (validate_fn rc t d c) = (map Send profile_order ++ fst (validate_compiled_fn rc q d c))%list.
Proof. intros rc t q d c H. now rewrite (@C09_equiv_both rc t q d c H). Qed.

(* a compiled profile is reusable: in any history of documents (including ones that fail) each result is the
   one a fresh validation from the profile text gives for that document *)
Theorem C09_history : forall rc t q c (h : list Data), compiled_of t = Ok q ->
  run_history rc q c h = map (fun d => snd (validate_fn rc t d c)) h.
Proof.
  intros rc t q c h Hq. unfold Pipeline.run_history. apply map_ext. intros d. symmetry. now apply C09_equiv_result.
Qed.
Theorem C09_history_prefix_irrelevant : forall rc q c (h1 h2 : list Data) d,
  nth_error (run_history rc q c (h1 ++ d :: h2)) (List.length h1) = Some (snd (validate_compiled_fn rc q d c)).
Proof.
  intros. unfold Pipeline.run_history. rewrite map_app. rewrite nth_error_app2; rewrite map_length; [|lia].
  rewrite Nat.sub_diag. reflexivity.
Qed.

End Oracles.

(* ------------------------------------------------------------------ milestones *)
Definition expand (l : list (stage * Z * Z)) : list tev :=
  flat_map (fun x => match x with (s, a, b) => [(Start s, a); (Done s, b)] end) l.

Lemma stage_eqb_refl s : stage_eqb s s = true.
Proof. destruct s; reflexivity. Qed.

(* one milestone per completed stage, in order, with the start time of its Start event and the elapsed time;
   a trailing Start (stage cut by a failure) yields none *)
Theorem milestones_of_bracketed : forall l starts tl,
  (tl = [] \/ exists s a, tl = [(Start s, a)]) ->
  milestones starts (expand l ++ tl) = map (fun x => match x with (s, a, b) => (s, a, (b - a)%Z) end) l.
Proof.
  induction l as [|[[s a] b] l IH]; intros starts tl Htl; simpl.
  - destruct Htl as [->|[s [a ->]]]; reflexivity.
  - rewrite stage_eqb_refl. f_equal. now apply IH.
Qed.
Theorem milestone_durations_nonneg : forall l : list (stage * Z * Z), Forall (fun x => match x with (_, a, b) => (a <= b)%Z end) l ->
  Forall (fun m => match m with (_, _, d) => (0 <= d)%Z end) (map (fun x => match x with (s, a, b) => (s, a, (b - a)%Z) end) l).
Proof. induction 1 as [|[[s a] b] l H _ IH]; simpl; constructor; auto. lia. Qed.

(* every send sequence the entry points produce has the shape the milestone theorem needs *)
Definition sp := (list stage * option stage)%type.
Fixpoint pairs_of (fuel : nat) (l : list ev) : option sp :=
  match fuel with
  | O => None
  | S fuel =>
    match l with
    | [] => Some ([], None)
    | Start s :: r =>
        match r with
        | [] => Some ([], Some s)
        | Done s' :: r' =>
            if stage_eqb s s' then match pairs_of fuel r' with Some (p, o) => Some (s :: p, o) | None => None end else None
        | Start _ :: _ => None
        end
    | Done _ :: _ => None
    end
  end.
Theorem sends_are_stage_pairs : forall e f, engine_total f = true ->
  pairs_of 20 (sends (fst (run_entry as_coded e f))) <> None.
Proof.
  intros e f Ht.
  assert (H : implb (engine_total f) (match pairs_of 20 (sends (fst (run_entry as_coded e f))) with Some _ => true | None => false end) = true).
  { apply (finite_check (fun e f => implb (engine_total f) (match pairs_of 20 (sends (fst (run_entry as_coded e f))) with Some _ => true | None => false end))).
    vm_compute. reflexivity. }
  rewrite Ht in H. cbn [implb] in H. destruct (pairs_of 20 (sends (fst (run_entry as_coded e f)))); [discriminate|discriminate H].
Qed.
