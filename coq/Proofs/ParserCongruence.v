(* C15, the whole statement for the YAML tree: rewriting a profile by permuting the entries of ANY mapping at ANY
   depth (the document, prefixes, validations, a validation, propertyConstraints, the constraints of one property,
   atLeast / atMost bodies, nested bodies) and the items of the free lists (and / or operands, the three level
   lists), all at once, leaves the verdict the model computes from the tree unchanged.
   [yrw] is that rewriting relation on YAML trees; [parse_expr_congruence] relates what the parser returns for
   two related trees (formulas related by YamlProofs.rewrite, or a failure on both sides); [verdict_congruence]
   is the statement about verdicts. *)
From Coq Require Import Permutation.
From ACV Require Import Base.Strs Model.Graph Model.PathGrammar Model.PathSem Model.Dnf Model.Rules Model.Report Model.Engine Model.Yaml Model.ProfileParser Model.YamlRewrite.
From ACV Require Import Proofs.PathSemProofs Proofs.RulesProofs Proofs.YamlProofs Proofs.ParserProofs.
Local Open Scope list_scope.


Inductive yrw : ynode -> ynode -> Prop :=
| yrw_scalar t v : yrw (YScalar t v) (YScalar t v)
| yrw_map l l1 l' : NoDup (map fst l) -> Permutation l l1 -> yrw_entries l1 l' -> yrw (YMap l) (YMap l')
| yrw_seq l l' : yrw_items l l' -> yrw (YSeq l) (YSeq l')
with yrw_entries : list (string * ynode) -> list (string * ynode) -> Prop :=
| yrwe_nil : yrw_entries [] []
| yrwe_cons k v v' r r' : yrw v v' -> yrw_entries r r' -> yrw_entries ((k, v) :: r) ((k, v') :: r')
| yrwe_free k items items1 items' r r' : free_list_key k = true -> Permutation items items1 -> yrw_items items1 items' ->
    yrw_entries r r' -> yrw_entries ((k, YSeq items) :: r) ((k, YSeq items') :: r')
with yrw_items : list ynode -> list ynode -> Prop :=
| yrwi_nil : yrw_items [] []
| yrwi_cons v v' r r' : yrw v v' -> yrw_items r r' -> yrw_items (v :: r) (v' :: r').

Scheme yrw_mind := Minimality for yrw Sort Prop
  with yrwe_mind := Minimality for yrw_entries Sort Prop
  with yrwi_mind := Minimality for yrw_items Sort Prop.
Combined Scheme yrw_mutind from yrw_mind, yrwe_mind, yrwi_mind.

(* what a lookup of key k finds in two related mappings *)
Inductive yrw_at (k : string) : ynode -> ynode -> Prop :=
| at_plain v v' : yrw v v' -> yrw_at k v v'
| at_free items items1 items' : free_list_key k = true -> Permutation items items1 -> yrw_items items1 items' ->
    yrw_at k (YSeq items) (YSeq items').

Definition orel {X} (R : X -> X -> Prop) (a b : option X) : Prop :=
  match a, b with Some x, Some y => R x y | None, None => True | _, _ => False end.
Definition lookups_rel (y y' : ynode) : Prop := forall k, orel (yrw_at k) (yget k y) (yget k y').

Lemma entries_assoc l l' : yrw_entries l l' -> forall k, orel (yrw_at k) (assoc k l) (assoc k l').
Proof.
  induction 1 as [|k0 v v' r r' Hv Hr IH|k0 items items1 items' r r' Hf Hp Hi Hr IH]; intros k; simpl.
  - exact I.
  - destruct (String.eqb k0 k); [now apply at_plain|apply IH].
  - destruct (String.eqb k0 k) eqn:E; [|apply IH]. apply String.eqb_eq in E. subst k0. now apply at_free with items1.
Qed.

Lemma yrw_lookups y y' : yrw y y' -> lookups_rel y y'.
Proof.
  intros H k. destruct H as [t v|l l1 l' Hnd Hp He|l l' Hi]; simpl; try exact I.
  rewrite (assoc_perm k l l1 Hnd Hp). now apply entries_assoc.
Qed.

Lemma yrw_at_nonfree k v v' : free_list_key k = false -> yrw_at k v v' -> yrw v v'.
Proof. intros Hk H. destruct H; [assumption|congruence]. Qed.

(* related nodes are of the same kind, and related scalars are the same scalar *)
Lemma yrw_scalar_l t a v' : yrw (YScalar t a) v' -> v' = YScalar t a.
Proof. intros H. inversion H. reflexivity. Qed.
Lemma yrw_kind v v' : yrw v v' ->
  match v, v' with
  | YScalar t a, YScalar t' a' => t = t' /\ a = a'
  | YMap _, YMap _ => True
  | YSeq _, YSeq _ => True
  | _, _ => False
  end.
Proof. intros H. destruct H; auto. Qed.

Lemma y_string_rel v v' : yrw v v' -> y_string v = y_string v'.
Proof. intros H. destruct H; reflexivity. Qed.
Lemma y_nat_rel v v' : yrw v v' -> y_nat v = y_nat v'.
Proof. intros H. destruct H; reflexivity. Qed.
Lemma stringify_rel v v' : yrw v v' -> stringify v = stringify v'.
Proof. intros H. destruct H; reflexivity. Qed.

Lemma present_rel y y' k : lookups_rel y y' -> present k y = present k y'.
Proof. intros H. unfold present. specialize (H k). destruct (yget k y), (yget k y'); simpl in H; tauto. Qed.

(* ------------------------------------------------------------------ results of the parser on related trees *)
Definition failed {X} (r : presult X) : Prop := match r with POk _ => False | _ => True end.
Definition rel_res (a b : presult form) : Prop :=
  match a, b with POk f, POk f' => rewrite f f' | POk _, _ | _, POk _ => False | _, _ => True end.
Definition rel_lres (a b : presult (list form)) : Prop :=
  match a, b with POk l, POk l' => Forall2 rewrite l l' | POk _, _ | _, POk _ => False | _, _ => True end.

Lemma rel_lres_refl a : rel_lres a a.
Proof. destruct a; simpl; auto. induction x; constructor; auto. apply rw_refl. Qed.
Lemma rel_lres_eq a b : a = b -> rel_lres a b.
Proof. intros ->. apply rel_lres_refl. Qed.

Lemma pbind_lres a a' (k k' : list form -> presult (list form)) :
  rel_lres a a' -> (forall x x', Forall2 rewrite x x' -> rel_lres (k x) (k' x')) -> rel_lres (pbind a k) (pbind a' k').
Proof. intros Ha Hk. destruct a, a'; simpl in *; try tauto. now apply Hk. Qed.

Lemma Forall2_rewrite_refl l : Forall2 rewrite l l.
Proof. induction l; constructor; auto. apply rw_refl. Qed.

Lemma rewrite_and_pointwise l l' : Forall2 rewrite l l' -> rewrite (FAnd l) (FAnd l').
Proof.
  intros H. assert (G : forall pre, rewrite (FAnd (pre ++ l)) (FAnd (pre ++ l'))).
  { induction H as [|x y l l' Hxy Hl IH]; intros pre; [apply rw_refl|].
    eapply rw_trans; [apply (rw_in_and pre x y l Hxy)|].
    replace (pre ++ y :: l) with ((pre ++ [y]) ++ l) by (rewrite <- app_assoc; reflexivity).
    replace (pre ++ y :: l') with ((pre ++ [y]) ++ l') by (rewrite <- app_assoc; reflexivity). apply IH. }
  exact (G []).
Qed.
Lemma rewrite_or_pointwise l l' : Forall2 rewrite l l' -> rewrite (FOr l) (FOr l').
Proof.
  intros H. assert (G : forall pre, rewrite (FOr (pre ++ l)) (FOr (pre ++ l'))).
  { induction H as [|x y l l' Hxy Hl IH]; intros pre; [apply rw_refl|].
    eapply rw_trans; [apply (rw_in_or pre x y l Hxy)|].
    replace (pre ++ y :: l) with ((pre ++ [y]) ++ l) by (rewrite <- app_assoc; reflexivity).
    replace (pre ++ y :: l') with ((pre ++ [y]) ++ l') by (rewrite <- app_assoc; reflexivity). apply IH. }
  exact (G []).
Qed.

(* ------------------------------------------------------------------ two prefix tables that expand alike *)
Section TwoContexts.
Variables ctx ctx' : list (string * string).
Hypothesis Hctx : forall iri, expand_compact ctx iri = expand_compact ctx' iri.

Lemma expand_path_ext p : expand_path ctx p = expand_path ctx' p.
Proof.
  induction p as [iri inv tr|l IH|l IH] using path_ind2; simpl.
  - now rewrite Hctx.
  - f_equal. induction IH as [|x l Hx Hl IHl]; [reflexivity|]. now rewrite Hx, IHl.
  - f_equal. induction IH as [|x l Hx Hl IHl]; [reflexivity|]. now rewrite Hx, IHl.
Qed.
Lemma parse_property_path_ext s : parse_property_path ctx s = parse_property_path ctx' s.
Proof. unfold parse_property_path. destruct (parse_path s); try reflexivity. now rewrite expand_path_ext. Qed.

Section Pieces.
Variables rec rec' : ynode -> presult form.
Hypothesis Hrec : forall v v', yrw v v' -> rel_res (rec v) (rec' v').
Variables c c' : ynode.
Hypothesis Hc : lookups_rel c c'.

(* the value found under a key that is not a free list *)
Lemma look k : free_list_key k = false -> orel yrw (yget k c) (yget k c').
Proof.
  intros Hk. specialize (Hc k). destruct (yget k c), (yget k c'); simpl in *; try tauto. now apply (yrw_at_nonfree k).
Qed.

Lemma pc_unsupported_rel : pc_unsupported c = pc_unsupported c'.
Proof. unfold pc_unsupported. now rewrite !(present_rel c c') by assumption. Qed.

Lemma count_atom_rel k q len p : free_list_key k = false -> count_atom k q len p c = count_atom k q len p c'.
Proof.
  intros Hk. unfold count_atom. pose proof (look k Hk) as H. destruct (yget k c), (yget k c'); simpl in H; try contradiction; try reflexivity.
  now rewrite (y_nat_rel _ _ H).
Qed.
Lemma pc_counts_rel p : pc_counts p c = pc_counts p c'.
Proof. unfold pc_counts. now rewrite !count_atom_rel by reflexivity. Qed.

Lemma pc_pattern_rel p : pc_pattern p c = pc_pattern p c'.
Proof.
  unfold pc_pattern. pose proof (look "pattern"%string eq_refl) as H. destruct (yget "pattern" c), (yget "pattern" c'); simpl in H; try contradiction; try reflexivity.
  now rewrite (y_string_rel _ _ H).
Qed.

Lemma items_stringify l l' : yrw_items l l' -> map_p (fun i => opt_p (stringify i)) l = map_p (fun i => opt_p (stringify i)) l'.
Proof. induction 1 as [|v v' r r' Hv Hr IH]; simpl; [reflexivity|]. now rewrite (stringify_rel _ _ Hv), IH. Qed.

Lemma pc_scalar_set_rel k mk : free_list_key k = false -> pc_scalar_set c k mk = pc_scalar_set c' k mk.
Proof.
  intros Hk. unfold pc_scalar_set. pose proof (look k Hk) as H. destruct (yget k c) as [v|], (yget k c') as [v'|]; simpl in H; try contradiction; try reflexivity.
  destruct H as [t a|l l1 l' Hnd Hp He|l l' Hi]; try reflexivity. now rewrite (items_stringify _ _ Hi).
Qed.

Lemma pc_cmp_rel p k o : free_list_key k = false -> pc_cmp ctx p c k o = pc_cmp ctx' p c' k o.
Proof.
  intros Hk. unfold pc_cmp. pose proof (look k Hk) as H. destruct (yget k c) as [v|], (yget k c') as [v'|]; simpl in H; try contradiction; try reflexivity.
  rewrite (y_string_rel _ _ H). destruct (y_string v'); [|reflexivity]. now rewrite parse_property_path_ext.
Qed.

Lemma pc_num_rel p k o : free_list_key k = false -> pc_num p c k o = pc_num p c' k o.
Proof.
  intros Hk. unfold pc_num. pose proof (look k Hk) as H. destruct (yget k c) as [v|], (yget k c') as [v'|]; simpl in H; try contradiction; try reflexivity.
  now rewrite (y_nat_rel _ _ H).
Qed.

Lemma pc_datatype_rel p : pc_datatype ctx p c = pc_datatype ctx' p c'.
Proof.
  unfold pc_datatype. pose proof (look "datatype"%string eq_refl) as H. destruct (yget "datatype" c) as [v|], (yget "datatype" c') as [v'|]; simpl in H; try contradiction; try reflexivity.
  rewrite (y_string_rel _ _ H). destruct (y_string v'); [|reflexivity]. now rewrite Hctx.
Qed.

Lemma rec_nested q p v v' : yrw v v' ->
  rel_lres (pbind (rec v) (fun f => POk [FNested q p f])) (pbind (rec' v') (fun f => POk [FNested q p f])).
Proof.
  intros H. pose proof (Hrec v v' H) as R. destruct (rec v), (rec' v'); simpl in *; try tauto.
  constructor; [|constructor]. now apply rw_in_nested.
Qed.

Lemma pc_nested_rel p : rel_lres (pc_nested rec p c) (pc_nested rec' p c').
Proof.
  unfold pc_nested. pose proof (look "nested"%string eq_refl) as H. destruct (yget "nested" c) as [v|], (yget "nested" c') as [v'|]; simpl in H.
  - pose proof (yrw_kind _ _ H) as K. destruct v, v'; simpl in K; try contradiction; try (simpl; constructor). now apply rec_nested.
  - contradiction.
  - contradiction.
  - simpl. constructor.
Qed.

Lemma pc_qualified_rel p k mk : free_list_key k = false -> rel_lres (pc_qualified rec p c k mk) (pc_qualified rec' p c' k mk).
Proof.
  intros Hk. unfold pc_qualified. pose proof (look k Hk) as H. destruct (yget k c) as [qn|], (yget k c') as [qn'|]; simpl in H; try contradiction; [|simpl; constructor].
  pose proof (yrw_lookups _ _ H) as L.
  pose proof (L "count"%string) as Lc. destruct (yget "count" qn) as [cn|], (yget "count" qn') as [cn'|]; simpl in Lc; try contradiction; [|exact I].
  apply (yrw_at_nonfree "count") in Lc; [|reflexivity]. rewrite (y_nat_rel _ _ Lc). destruct (y_nat cn'); [|exact I].
  pose proof (L "validation"%string) as Lv. destruct (yget "validation" qn) as [v|], (yget "validation" qn') as [v'|]; simpl in Lv; try contradiction; [|exact I].
  apply (yrw_at_nonfree "validation") in Lv; [|reflexivity].
  pose proof (yrw_kind _ _ Lv) as K. destruct v, v'; simpl in K; try contradiction; try exact I. now apply rec_nested.
Qed.
End Pieces.

Section Entry.
Variables rec rec' : ynode -> presult form.
Hypothesis Hrec : forall v v', yrw v v' -> rel_res (rec v) (rec' v').

Lemma parse_pc_rel key c c' : yrw c c' -> rel_lres (parse_pc ctx rec (key, c)) (parse_pc ctx' rec' (key, c')).
Proof.
  intros H. unfold parse_pc. rewrite <- parse_property_path_ext.
  destruct (parse_property_path ctx key) as [p| |]; simpl; try exact I.
  pose proof (yrw_kind _ _ H) as K. destruct c as [t a|l|l], c' as [t' a'|l'|l']; simpl in K; try contradiction; try exact I.
  pose proof (yrw_lookups _ _ H) as L.
  rewrite <- (pc_unsupported_rel _ _ L). destruct (pc_unsupported (YMap l)); [exact I|].
  rewrite <- (pc_pattern_rel _ _ L), <- (pc_counts_rel _ _ L).
  rewrite <- !(pc_scalar_set_rel _ _ L) by reflexivity.
  rewrite <- !(pc_cmp_rel _ _ L) by reflexivity.
  rewrite <- !(pc_num_rel _ _ L) by reflexivity.
  rewrite <- (pc_datatype_rel _ _ L).
  apply pbind_lres; [apply rel_lres_refl|]. intros pattern pattern' Hpat.
  apply pbind_lres; [apply rel_lres_refl|]. intros fin fin' Hfin.
  apply pbind_lres; [apply rel_lres_refl|]. intros fall fall' Hfall.
  apply pbind_lres; [apply rel_lres_refl|]. intros fsome fsome' Hfsome.
  apply pbind_lres; [apply rel_lres_refl|]. intros c1 c1' Hc1.
  apply pbind_lres; [apply rel_lres_refl|]. intros c2 c2' Hc2.
  apply pbind_lres; [apply rel_lres_refl|]. intros c3 c3' Hc3.
  apply pbind_lres; [apply rel_lres_refl|]. intros c4 c4' Hc4.
  apply pbind_lres; [now apply (pc_qualified_rel rec rec' Hrec _ _ L)|]. intros q1 q1' Hq1.
  apply pbind_lres; [now apply (pc_qualified_rel rec rec' Hrec _ _ L)|]. intros q2 q2' Hq2.
  apply pbind_lres; [apply rel_lres_refl|]. intros n1 n1' Hn1.
  apply pbind_lres; [apply rel_lres_refl|]. intros n2 n2' Hn2.
  apply pbind_lres; [apply rel_lres_refl|]. intros n3 n3' Hn3.
  apply pbind_lres; [apply rel_lres_refl|]. intros n4 n4' Hn4.
  apply pbind_lres; [apply rel_lres_refl|]. intros dt dt' Hdt.
  apply pbind_lres; [now apply (pc_nested_rel rec rec' Hrec _ _ L)|]. intros nested nested' Hnested.
  simpl. repeat (apply Forall2_app; [first [assumption|apply Forall2_rewrite_refl]|]). assumption.
Qed.
End Entry.
End TwoContexts.

(* ------------------------------------------------------------------ lists of sub-trees *)
Lemma map_p_failed_perm {X Y} (f : X -> presult Y) l l' : Permutation l l' -> failed (map_p f l) -> failed (map_p f l').
Proof.
  intros Hp Hf. destruct (map_p f l') as [r'| |] eqn:E; simpl; auto.
  destruct (map_p_perm f l' l (Permutation_sym Hp) r' E) as [r [E' _]]. rewrite E' in Hf. exact Hf.
Qed.

Definition rel_gen {X} (R : X -> X -> Prop) (a b : presult X) : Prop :=
  match a, b with POk x, POk y => R x y | POk _, _ | _, POk _ => False | _, _ => True end.

Lemma map_p_pointwise {X Y} (RX : X -> X -> Prop) (RY : Y -> Y -> Prop) (f f' : X -> presult Y) l l' :
  Forall2 RX l l' -> (forall x x', RX x x' -> rel_gen RY (f x) (f' x')) -> rel_gen (Forall2 RY) (map_p f l) (map_p f' l').
Proof.
  intros H Hf. induction H as [|x x' l l' Hx Hl IH]; simpl; [constructor|].
  pose proof (Hf x x' Hx) as R. destruct (f x), (f' x'); simpl in *; try contradiction; auto.
  destruct (map_p f l), (map_p f' l'); simpl in *; try contradiction; auto.
Qed.

(* permuted, then pointwise related *)
Lemma map_p_perm_pointwise {X Y} (RX : X -> X -> Prop) (RY : Y -> Y -> Prop) (f f' : X -> presult Y) l l1 l' :
  Permutation l l1 -> Forall2 RX l1 l' -> (forall x x', RX x x' -> rel_gen RY (f x) (f' x')) ->
  match map_p f l, map_p f' l' with
  | POk r, POk r' => exists r1, Permutation r r1 /\ Forall2 RY r1 r'
  | POk _, _ | _, POk _ => False
  | _, _ => True
  end.
Proof.
  intros Hp H2 Hf. pose proof (map_p_pointwise RX RY f f' l1 l' H2 Hf) as R.
  destruct (map_p f l) as [r| |] eqn:E.
  - destruct (map_p_perm f l l1 Hp r E) as [r1 [E1 P1]]. rewrite E1 in R. destruct (map_p f' l'); simpl in R; try contradiction.
    exists r1. auto.
  - assert (F : failed (map_p f l1)) by (apply (map_p_failed_perm f l l1 Hp); now rewrite E).
    destruct (map_p f l1); simpl in F; try contradiction; destruct (map_p f' l'); simpl in R; auto.
  - assert (F : failed (map_p f l1)) by (apply (map_p_failed_perm f l l1 Hp); now rewrite E).
    destruct (map_p f l1); simpl in F; try contradiction; destruct (map_p f' l'); simpl in R; auto.
Qed.

Lemma items_Forall2 l l' : yrw_items l l' -> Forall2 yrw l l'.
Proof. induction 1; constructor; auto. Qed.
Definition entry_rel (a b : string * ynode) : Prop :=
  fst a = fst b /\ (yrw (snd a) (snd b) \/ (exists i i', snd a = YSeq i /\ snd b = YSeq i')).
Lemma entries_Forall2 l l' : yrw_entries l l' -> Forall2 entry_rel l l'.
Proof.
  induction 1; constructor; auto.
  - split; simpl; auto.
  - split; simpl; eauto.
Qed.

Lemma concat_Forall2 {X} (R : X -> X -> Prop) a b : Forall2 (Forall2 R) a b -> Forall2 R (List.concat a) (List.concat b).
Proof. induction 1; simpl; [constructor|]. now apply Forall2_app. Qed.

(* ------------------------------------------------------------------ one expression mapping *)
Section Expr.
Variables ctx ctx' : list (string * string).
Hypothesis Hctx : forall iri, expand_compact ctx iri = expand_compact ctx' iri.
Variables rec rec' : ynode -> presult form.
Hypothesis Hrec : forall v v', yrw v v' -> rel_res (rec v) (rec' v').

Lemma operand_rel v v' : yrw v v' ->
  rel_gen rewrite (match v with YMap _ => rec v | _ => PError end) (match v' with YMap _ => rec' v' | _ => PError end).
Proof.
  intros H. pose proof (yrw_kind _ _ H) as K. destruct v, v'; simpl in K; try contradiction; try exact I.
  exact (Hrec _ _ H).
Qed.

Lemma operands_rel (mk : list form -> form) items items1 items' :
  (forall l l', Permutation l l' -> rewrite (mk l) (mk l')) -> (forall l l', Forall2 rewrite l l' -> rewrite (mk l) (mk l')) ->
  Permutation items items1 -> yrw_items items1 items' ->
  rel_res (pbind (operands rec items) (fun l => POk (mk l))) (pbind (operands rec' items') (fun l => POk (mk l))).
Proof.
  intros Hperm Hpw Hp Hi. unfold operands.
  pose proof (map_p_perm_pointwise yrw rewrite _ _ items items1 items' Hp (items_Forall2 _ _ Hi) operand_rel) as R.
  destruct (map_p _ items), (map_p _ items'); simpl in *; try contradiction; auto.
  destruct R as [r1 [P1 F1]]. eapply rw_trans; [apply Hperm; exact P1|now apply Hpw].
Qed.

Lemma rec_bind v v' (k k' : form -> presult form) : yrw v v' -> (forall f f', rewrite f f' -> rel_res (k f) (k' f')) ->
  rel_res (pbind (rec v) k) (pbind (rec' v') k').
Proof. intros H Hk. pose proof (Hrec _ _ H) as R. destruct (rec v), (rec' v'); simpl in *; try contradiction; auto. Qed.

Lemma expr_body_rel y y' : yrw y y' -> rel_res (expr_body ctx rec y) (expr_body ctx' rec' y').
Proof.
  intros H. pose proof (yrw_lookups _ _ H) as L. unfold expr_body.
  assert (look : forall k, free_list_key k = false -> orel yrw (yget k y) (yget k y')).
  { intros k Hk. specialize (L k). destruct (yget k y), (yget k y'); simpl in *; try contradiction; auto. now apply (yrw_at_nonfree k). }
  pose proof (look "propertyConstraints"%string eq_refl) as Hpc.
  destruct (yget "propertyConstraints" y) as [pc|], (yget "propertyConstraints" y') as [pc'|]; simpl in Hpc; try contradiction.
  { (* propertyConstraints present *)
    destruct Hpc as [t a|l l1 l' Hnd Hp He|l l' Hi]; try (simpl; apply rw_refl).
    pose proof (map_p_perm_pointwise entry_rel (Forall2 rewrite) (parse_pc ctx rec) (parse_pc ctx' rec') l l1 l' Hp (entries_Forall2 _ _ He)) as R.
    assert (Hf : forall x x', entry_rel x x' -> rel_gen (Forall2 rewrite) (parse_pc ctx rec x) (parse_pc ctx' rec' x')).
    { intros [k v] [k' v'] [Ek Hv]. simpl in Ek, Hv. subst k'. destruct Hv as [Hv|[i [i' [-> ->]]]].
      - exact (parse_pc_rel ctx ctx' Hctx rec rec' Hrec k v v' Hv).
      - unfold parse_pc. rewrite <- (parse_property_path_ext ctx ctx' Hctx). destruct (parse_property_path ctx k); simpl; exact I. }
    specialize (R Hf). destruct (map_p (parse_pc ctx rec) l), (map_p (parse_pc ctx' rec') l'); simpl in *; try contradiction; auto.
    destruct R as [r1 [P1 F1]]. eapply rw_trans; [apply rw_and_perm; apply concat_perm; exact P1|].
    apply rewrite_and_pointwise. now apply concat_Forall2. }
  rewrite <- !(present_rel y y') by assumption.
  destruct (present "rego" y || present "regoModule" y); [exact I|].
  pose proof (L "and"%string) as Hand.
  destruct (yget "and" y) as [a|], (yget "and" y') as [a'|]; simpl in Hand; try contradiction.
  { destruct Hand as [v v' Hv|items items1 items' _ Hp Hi].
    - destruct Hv as [t x|l l1 l' Hnd Hp He|l l' Hi]; try exact I.
      apply (operands_rel FAnd l l l'); auto using rw_and_perm, rewrite_and_pointwise.
    - apply (operands_rel FAnd items items1 items'); auto using rw_and_perm, rewrite_and_pointwise. }
  pose proof (L "or"%string) as Hor.
  destruct (yget "or" y) as [a|], (yget "or" y') as [a'|]; simpl in Hor; try contradiction.
  { destruct Hor as [v v' Hv|items items1 items' _ Hp Hi].
    - destruct Hv as [t x|l l1 l' Hnd Hp He|l l' Hi]; try exact I.
      apply (operands_rel FOr l l l'); auto using rw_or_perm, rewrite_or_pointwise.
    - apply (operands_rel FOr items items1 items'); auto using rw_or_perm, rewrite_or_pointwise. }
  pose proof (look "not"%string eq_refl) as Hnot.
  destruct (yget "not" y) as [a|], (yget "not" y') as [a'|]; simpl in Hnot; try contradiction.
  { pose proof (yrw_kind _ _ Hnot) as K. destruct a, a'; simpl in K; try contradiction; try exact I.
    apply rec_bind; [assumption|]. intros f f' Hf. simpl. now apply rw_in_not. }
  pose proof (look "if"%string eq_refl) as Hif.
  destruct (yget "if" y) as [i|], (yget "if" y') as [i'|]; simpl in Hif; try contradiction; [|exact I].
  pose proof (look "then"%string eq_refl) as Hthen.
  destruct (yget "then" y) as [t|], (yget "then" y') as [t'|]; simpl in Hthen; try contradiction; [|exact I].
  apply rec_bind; [assumption|]. intros fi fi' Hfi.
  apply rec_bind; [assumption|]. intros ft ft' Hft.
  pose proof (look "else"%string eq_refl) as Helse.
  destruct (yget "else" y) as [e|], (yget "else" y') as [e'|]; simpl in Helse; try contradiction.
  - apply rec_bind; [assumption|]. intros fe fe' Hfe. simpl.
    eapply rw_trans; [apply rw_in_if; exact Hfi|]. eapply rw_trans; [apply rw_in_then; exact Hft|]. now apply rw_in_else.
  - simpl. eapply rw_trans; [apply rw_in_if; exact Hfi|]. now apply rw_in_then.
Qed.
End Expr.

(* C15 for one validation body: related trees parse to related formulas, or fail on both sides *)
Theorem parse_expr_congruence : forall ctx ctx', (forall iri, expand_compact ctx iri = expand_compact ctx' iri) ->
  forall fuel y y', yrw y y' -> rel_res (parse_expr ctx fuel y) (parse_expr ctx' fuel y').
Proof.
  intros ctx ctx' Hctx. induction fuel as [|fuel IH]; intros y y' H; [exact I|].
  cbn [parse_expr]. now apply expr_body_rel.
Qed.

(* ------------------------------------------------------------------ the size used as fuel is the same *)
Definition esize := fix go (l : list (string * ynode)) : nat := match l with [] => 0 | (_, v) :: r => ysize v + go r end.
Definition isize := fix go (l : list ynode) : nat := match l with [] => 0 | v :: r => ysize v + go r end.
Lemma esize_perm l l' : Permutation l l' -> esize l = esize l'.
Proof. induction 1 as [|[k v] l l' Hp IH|[k v] [k2 v2] l|l l' l'' H1 IH1 H2 IH2]; simpl in *; try lia; congruence. Qed.
Lemma isize_perm l l' : Permutation l l' -> isize l = isize l'.
Proof. induction 1 as [|v l l' Hp IH|v v2 l|l l' l'' H1 IH1 H2 IH2]; simpl in *; try lia; congruence. Qed.

Lemma ysize_rel_all :
  (forall y y', yrw y y' -> ysize y = ysize y') /\
  (forall l l', yrw_entries l l' -> esize l = esize l') /\
  (forall l l', yrw_items l l' -> isize l = isize l').
Proof.
  apply yrw_mutind.
  - reflexivity.
  - intros l l1 l' _ Hp _ IH. change (S (esize l) = S (esize l')). now rewrite (esize_perm _ _ Hp), IH.
  - intros l l' _ IH. change (S (isize l) = S (isize l')). now rewrite IH.
  - reflexivity.
  - intros k v v' r r' _ IHv _ IHr. simpl. now rewrite IHv, IHr.
  - intros k items items1 items' r r' _ Hp _ IHi _ IHr. simpl. fold isize. fold esize in *. rewrite (isize_perm _ _ Hp), IHi. now rewrite IHr.
  - reflexivity.
  - intros v v' r r' _ IHv _ IHr. simpl. now rewrite IHv, IHr.
Qed.
Lemma ysize_rel y y' : yrw y y' -> ysize y = ysize y'.
Proof. apply ysize_rel_all. Qed.

(* ------------------------------------------------------------------ the profile *)
Definition def_rel (d d' : vdef) : Prop :=
  v_name d = v_name d' /\ v_class d = v_class d' /\ v_msg d = v_msg d' /\ rewrite (v_form d) (v_form d').
Definition prof_rel (p p' : profile) : Prop :=
  p_name p = p_name p' /\ Permutation (p_listed p) (p_listed p') /\ NoDup (map v_name (p_defs p)) /\
  exists defs1, Permutation (p_defs p) defs1 /\ Forall2 def_rel defs1 (p_defs p').

Lemma filter_perm {X} (h : X -> bool) l l' : Permutation l l' -> Permutation (filter h l) (filter h l').
Proof.
  induction 1 as [|x l l' Hp IH|x y l|l l' l'' H1 IH1 H2 IH2]; simpl; auto.
  - destruct (h x); auto.
  - destruct (h x), (h y); auto. apply perm_swap.
  - eapply perm_trans; eauto.
Qed.
Lemma filter_ext_all {X} (h h' : X -> bool) l : (forall x, h x = h' x) -> filter h l = filter h' l.
Proof. intros H. induction l as [|x l IH]; simpl; [reflexivity|]. now rewrite H, IH. Qed.
Lemma filter_entries (h h' : string * ynode -> bool) l l' :
  (forall x x', fst x = fst x' -> h x = h' x') -> Forall2 entry_rel l l' -> Forall2 entry_rel (filter h l) (filter h' l').
Proof.
  intros Hh H. induction H as [|x x' l l' Hx Hl IH]; simpl; [constructor|].
  rewrite (Hh x x' (proj1 Hx)). destruct (h' x'); [constructor|]; auto.
Qed.
Lemma NoDup_map_filter {X Y} (f : X -> Y) (h : X -> bool) l : NoDup (map f l) -> NoDup (map f (filter h l)).
Proof.
  induction l as [|x l IH]; simpl; intros H; [constructor|]. inversion H; subst.
  destruct (h x); simpl; [|auto]. constructor; [|auto]. intros Hin. apply in_map_iff in Hin as [z [Ez Hz]].
  apply filter_In in Hz as [Hz _]. apply H2. apply in_map_iff. eauto.
Qed.
Lemma assoc_app {V} k (a b : list (string * V)) : assoc k (a ++ b) = match assoc k a with Some v => Some v | None => assoc k b end.
Proof. induction a as [|[k' v] a IH]; simpl; [reflexivity|]. destruct (String.eqb k' k); auto. Qed.

Lemma map_p_keys {X Y Z} (f : X * Y -> presult (X * Z)) l r :
  (forall kv x, f kv = POk x -> fst x = fst kv) -> map_p f l = POk r -> map fst r = map fst l.
Proof.
  intros Hf. revert r. induction l as [|kv l IH]; simpl; intros r H; [inversion H; reflexivity|].
  destruct (f kv) as [x| |] eqn:E; simpl in H; try discriminate. destruct (map_p f l) as [r0| |]; simpl in H; try discriminate.
  inversion H; subst. simpl. now rewrite (Hf kv x E), (IH r0 eq_refl).
Qed.

Definition pfx_entry (kv : string * ynode) : presult (string * string) :=
  match y_string (snd kv) with Some v => POk (fst kv, v) | None => PError end.

Lemma prefixes_rel defaults doc doc' : lookups_rel doc doc' ->
  match prefixes_of doc, prefixes_of doc' with
  | POk a, POk b => forall iri, expand_compact (context defaults a) iri = expand_compact (context defaults b) iri
  | POk _, _ | _, POk _ => False
  | _, _ => True
  end.
Proof.
  intros L. unfold prefixes_of. pose proof (L "prefixes"%string) as H.
  destruct (yget "prefixes" doc) as [v|], (yget "prefixes" doc') as [v'|]; simpl in H; try contradiction; [|reflexivity].
  apply (yrw_at_nonfree "prefixes") in H; [|reflexivity].
  destruct H as [t a|l l1 l' Hnd Hp He|l l' Hi]; try exact I.
  change (fun kv : string * ynode => match y_string (snd kv) with Some v => POk (fst kv, v) | None => PError end) with pfx_entry.
  pose proof (map_p_perm_pointwise entry_rel eq pfx_entry pfx_entry l l1 l' Hp (entries_Forall2 _ _ He)) as R.
  assert (Hf : forall x x', entry_rel x x' -> rel_gen eq (pfx_entry x) (pfx_entry x')).
  { intros [k v] [k' v'] [Ek Hv]. simpl in Ek, Hv. subst k'. unfold pfx_entry. simpl. destruct Hv as [Hv|[i [i' [-> ->]]]]; [|exact I].
    rewrite (y_string_rel _ _ Hv). destruct (y_string v'); simpl; auto. }
  specialize (R Hf). destruct (map_p pfx_entry l) as [a| |] eqn:Ea, (map_p pfx_entry l') as [b| |] eqn:Eb; simpl in *; try contradiction; auto.
  destruct R as [r1 [P1 F1]]. assert (r1 = b) by (clear -F1; induction F1; congruence). subst r1.
  assert (Ka : map fst a = map fst l).
  { apply (map_p_keys pfx_entry l a); [|assumption]. intros kv x. unfold pfx_entry. destruct (y_string (snd kv)); intros E; inversion E; reflexivity. }
  intros iri. unfold expand_compact, context. destruct (split_dot iri) as [[p loc]|]; [|reflexivity].
  rewrite !assoc_app. rewrite (assoc_perm p a b); [reflexivity| |assumption]. now rewrite Ka.
Qed.

Lemma level_names_perm doc doc' k : lookups_rel doc doc' -> Permutation (level_names doc k) (level_names doc' k).
Proof.
  intros L. unfold level_names. pose proof (L k) as H.
  destruct (yget k doc) as [v|], (yget k doc') as [v'|]; simpl in H; try contradiction; [|constructor].
  assert (G : forall a b, yrw_items a b -> flat_map (fun i => match y_string i with Some s => [s] | None => [] end) a
                                          = flat_map (fun i => match y_string i with Some s => [s] | None => [] end) b).
  { induction 1 as [|x x' r r' Hx Hr IH]; simpl; [reflexivity|]. now rewrite (y_string_rel _ _ Hx), IH. }
  destruct H as [v v' Hv|items items1 items' _ Hp Hi].
  - destruct Hv as [t a|l l1 l' Hnd Hp He|l l' Hi]; try constructor. rewrite (G _ _ Hi). apply Permutation_refl.
  - rewrite <- (G _ _ Hi). now apply Permutation_flat_map.
Qed.

Definition listed_of (doc : ynode) : list (level * string) :=
  map (fun s => (Violation, s)) (level_names doc "violation") ++ map (fun s => (Warning, s)) (level_names doc "warning")
  ++ map (fun s => (Info, s)) (level_names doc "info").
Lemma listed_perm doc doc' : lookups_rel doc doc' -> Permutation (listed_of doc) (listed_of doc').
Proof.
  intros L. unfold listed_of. repeat apply Permutation_app; apply Permutation_map; now apply level_names_perm.
Qed.

Definition parse_def (ctx : list (string * string)) (kv : string * ynode) : presult vdef :=
  let (vname, v) := kv in
  match yget "targetClass" v with
  | Some tc => match y_string tc with
    | Some cls => match expand_compact ctx cls with
      | Some ecls =>
        let msg := match yget "message" v with Some m => match y_string m with Some s => s | None => "Validation error"%string end | None => "Validation error"%string end in
        pbind (parse_expr ctx (ysize v) v) (fun f =>
          POk {| v_name := vname; v_class := ecls; v_msg := msg; v_form := f |})
      | None => PError
      end
    | None => PError
    end
  | None => PError
  end.

Lemma parse_def_rel ctx ctx' : (forall iri, expand_compact ctx iri = expand_compact ctx' iri) ->
  forall x x', entry_rel x x' -> rel_gen def_rel (parse_def ctx x) (parse_def ctx' x').
Proof.
  intros Hctx [k v] [k' v'] [Ek Hv]. simpl in Ek, Hv. subst k'. unfold parse_def.
  destruct Hv as [Hv|[i [i' [-> ->]]]]; [|exact I].
  pose proof (yrw_lookups _ _ Hv) as L.
  pose proof (L "targetClass"%string) as Ht.
  destruct (yget "targetClass" v) as [tc|], (yget "targetClass" v') as [tc'|]; simpl in Ht; try contradiction; [|exact I].
  apply (yrw_at_nonfree "targetClass") in Ht; [|reflexivity]. rewrite (y_string_rel _ _ Ht). destruct (y_string tc') as [cls|]; [|exact I].
  rewrite <- Hctx. destruct (expand_compact ctx cls) as [ecls|]; [|exact I].
  assert (Hm : match yget "message" v with Some m => match y_string m with Some s => s | None => "Validation error"%string end | None => "Validation error"%string end
             = match yget "message" v' with Some m => match y_string m with Some s => s | None => "Validation error"%string end | None => "Validation error"%string end).
  { pose proof (L "message"%string) as Hm. destruct (yget "message" v) as [m|], (yget "message" v') as [m'|]; simpl in Hm; try contradiction; [|reflexivity].
    apply (yrw_at_nonfree "message") in Hm; [|reflexivity]. now rewrite (y_string_rel _ _ Hm). }
  rewrite Hm. rewrite <- (ysize_rel _ _ Hv).
  pose proof (parse_expr_congruence ctx ctx' Hctx (ysize v) v v' Hv) as R.
  destruct (parse_expr ctx (ysize v) v), (parse_expr ctx' (ysize v) v'); simpl in *; try contradiction; auto.
  repeat split; auto.
Qed.

Lemma names_of_defs ctx l r : map_p (parse_def ctx) l = POk r -> map v_name r = map fst l.
Proof.
  revert r. induction l as [|[k v] l IH]; cbn [map_p map fst]; intros r H; [inversion H; reflexivity|].
  destruct (parse_def ctx (k, v)) as [d| |] eqn:E; cbn [pbind] in H; try discriminate. destruct (map_p (parse_def ctx) l) as [r0| |]; cbn [pbind] in H; try discriminate.
  inversion H; subst. cbn [map]. rewrite (IH r0 eq_refl). f_equal.
  unfold parse_def in E. destruct (yget "targetClass" v); try discriminate. destruct (y_string y); try discriminate.
  destruct (expand_compact ctx s); try discriminate. destruct (parse_expr ctx (ysize v) v); simpl in E; try discriminate. inversion E. reflexivity.
Qed.

Lemma parse_profile_unfold defaults l :
  parse_profile defaults (YMap l) =
  match yget "profile" (YMap l) with
  | Some n => match y_string n with
    | Some name =>
      if present "rego_extensions" (YMap l) then PUnsupported else
      pbind (prefixes_of (YMap l)) (fun pfx =>
      let ctx := context defaults pfx in
      match yget "validations" (YMap l) with
      | Some (YMap vals) =>
        let listed := listed_of (YMap l) in
        let used := filter (fun kv : string * ynode => existsb (fun ln => String.eqb (snd ln) (fst kv)) listed) vals in
        pbind (map_p (parse_def ctx) used) (fun defs =>
        POk {| p_name := name; p_listed := filter (fun ln => existsb (fun d => String.eqb (v_name d) (snd ln)) defs) listed; p_defs := defs |})
      | _ => PError
      end)
    | None => PError
    end
  | None => PError
  end.
Proof. reflexivity. Qed.

Theorem parse_profile_congruence defaults doc doc' : yrw doc doc' ->
  rel_gen prof_rel (parse_profile defaults doc) (parse_profile defaults doc').
Proof.
  intros H. pose proof (yrw_lookups _ _ H) as L.
  pose proof (yrw_kind _ _ H) as K. destruct doc as [t a|l|l], doc' as [t' a'|l'|l']; simpl in K; try contradiction; try exact I.
  rewrite !parse_profile_unfold.
  pose proof (L "profile"%string) as Hn.
  destruct (yget "profile" (YMap l)) as [n|], (yget "profile" (YMap l')) as [n'|]; simpl in Hn; try contradiction; [|exact I].
  apply (yrw_at_nonfree "profile") in Hn; [|reflexivity]. rewrite (y_string_rel _ _ Hn). destruct (y_string n') as [name|]; [|exact I].
  rewrite <- (present_rel _ _ "rego_extensions"%string L). destruct (present "rego_extensions" (YMap l)); [exact I|].
  pose proof (prefixes_rel defaults _ _ L) as Hp.
  destruct (prefixes_of (YMap l)) as [pfx| |], (prefixes_of (YMap l')) as [pfx'| |]; simpl in Hp; try contradiction; try exact I.
  cbn [pbind]. cbv zeta.
  pose proof (L "validations"%string) as Hv.
  destruct (yget "validations" (YMap l)) as [vm|], (yget "validations" (YMap l')) as [vm'|]; simpl in Hv; try contradiction; [|exact I].
  apply (yrw_at_nonfree "validations") in Hv; [|reflexivity].
  destruct Hv as [t a|vals v1 vals' Hnd Hperm He|s s' Hi]; try exact I.
  pose proof (listed_perm _ _ L) as Hl.
  set (listed := listed_of (YMap l)) in *. set (listed' := listed_of (YMap l')) in *.
  set (h := fun kv : string * ynode => existsb (fun ln : level * string => String.eqb (snd ln) (fst kv)) listed).
  set (h' := fun kv : string * ynode => existsb (fun ln : level * string => String.eqb (snd ln) (fst kv)) listed').
  assert (Hh : forall x x' : string * ynode, fst x = fst x' -> h x = h' x').
  { intros x x' E. unfold h, h'. rewrite E. now apply existsb_perm. }
  pose proof (filter_perm h vals v1 Hperm) as Pu.
  pose proof (filter_entries h h' v1 vals' Hh (entries_Forall2 _ _ He)) as Fu.
  pose proof (map_p_perm_pointwise entry_rel def_rel (parse_def (context defaults pfx)) (parse_def (context defaults pfx')) _ _ _ Pu Fu (parse_def_rel _ _ Hp)) as R.
  destruct (map_p (parse_def (context defaults pfx)) (filter h vals)) as [defs| |] eqn:Ed,
           (map_p (parse_def (context defaults pfx')) (filter h' vals')) as [defs'| |] eqn:Ed'; simpl in R; try contradiction; try exact I.
  destruct R as [d1 [Pd Fd]]. simpl. unfold prof_rel. simpl. split; [reflexivity|].
  assert (Hnames : Permutation (map v_name defs) (map v_name defs')).
  { eapply perm_trans; [apply Permutation_map; exact Pd|]. clear -Fd. induction Fd as [|x y a b Hxy Hab IH]; simpl; [constructor|].
    destruct Hxy as [-> _]. now constructor. }
  split; [|split].
  - assert (Hf : forall ln : level * string, existsb (fun d => String.eqb (v_name d) (snd ln)) defs = existsb (fun d => String.eqb (v_name d) (snd ln)) defs').
    { intros ln. transitivity (existsb (fun nm => String.eqb nm (snd ln)) (map v_name defs)).
      - clear. induction defs; simpl; congruence.
      - rewrite (existsb_perm _ _ _ Hnames). clear. induction defs'; simpl; congruence. }
    rewrite (filter_ext_all _ _ listed Hf). now apply filter_perm.
  - rewrite (names_of_defs _ _ _ Ed). now apply NoDup_map_filter.
  - exists d1. auto.
Qed.

(* ------------------------------------------------------------------ verdicts *)
Lemma dedup_In_local {X} (eqb : X -> X -> bool) (L : list X) :
  (forall a, eqb a a = true) -> (forall a b, In a L -> In b L -> eqb a b = true -> a = b) ->
  forall x, In x (dedup eqb L) <-> In x L.
Proof.
  intros Hrefl. induction L as [|y l IH]; intros Hdet x; simpl; [tauto|].
  assert (IH' : forall x, In x (dedup eqb l) <-> In x l) by (apply IH; intros a b Ha Hb; apply Hdet; simpl; auto).
  destruct (existsb (eqb y) l) eqn:E.
  - rewrite IH'. split; [auto|]. intros [->|H]; [|assumption].
    apply existsb_exists in E as [z [Hz Ez]]. assert (x = z) by (apply Hdet; simpl; auto). now subst.
  - simpl. now rewrite IH'.
Qed.

Definition level_list (g : graph) (q : profile) (l : level) : list result :=
  flat_map (fun ln => if level_eqb l (fst ln) then
      match find_def q (snd ln) with
      | Some d => map (fun n => {| r_name := v_name d; r_focus := nid n; r_msg := v_msg d; r_tree := unit_tree |}) (validation_results g (v_class d) (v_form d))
      | None => []
      end else []) (p_listed q).
Lemma level_results_list g q l : level_results g q l = dedup result_eqb (level_list g q l).
Proof. reflexivity. Qed.

(* a result of a level is determined by its name and focus: message and tree come from the definition found by name *)
Lemma results_determined g q l x y : In x (level_list g q l) -> In y (level_list g q l) -> result_eqb x y = true -> x = y.
Proof.
  intros Hx Hy He. unfold result_eqb in He. apply andb_prop in He as [En Ef]. apply String.eqb_eq in En, Ef.
  unfold level_list in *. apply in_flat_map in Hx as [[lx nx] [_ Hx]]. apply in_flat_map in Hy as [[ly ny] [_ Hy]]. simpl in *.
  destruct (level_eqb l lx); [|destruct Hx]. destruct (level_eqb l ly); [|destruct Hy].
  destruct (find_def q nx) as [dx|] eqn:Ex; [|destruct Hx]. destruct (find_def q ny) as [dy|] eqn:Ey; [|destruct Hy].
  apply in_map_iff in Hx as [mx [<- _]]. apply in_map_iff in Hy as [my [<- _]]. simpl in *.
  pose proof Ex as Ex'. pose proof Ey as Ey'.
  unfold find_def in Ex, Ey. apply find_some in Ex as [_ Ex]. apply find_some in Ey as [_ Ey]. apply String.eqb_eq in Ex, Ey.
  assert (nx = ny) by congruence. subst ny. assert (dx = dy) by congruence. subst dy. now rewrite Ef.
Qed.

Lemma find_def_pointwise defs defs' nm : Forall2 def_rel defs defs' ->
  orel def_rel (List.find (fun d => String.eqb (v_name d) nm) defs) (List.find (fun d => String.eqb (v_name d) nm) defs').
Proof.
  induction 1 as [|d d' a b Hd Hab IH]; simpl; [exact I|].
  destruct Hd as [En Hd]. rewrite <- En. destruct (String.eqb (v_name d) nm); simpl; [repeat split; tauto|exact IH].
Qed.

Lemma level_list_pointwise g q q' l : p_listed q = p_listed q' -> Forall2 def_rel (p_defs q) (p_defs q') ->
  (forall d, In d (p_defs q) -> wf_form (v_form d) = true) ->
  forall x, In x (level_list g q l) <-> In x (level_list g q' l).
Proof.
  intros El Fd Hwf x. unfold level_list. rewrite <- El. rewrite !in_flat_map.
  assert (G : forall ln, In x (if level_eqb l (fst ln) then match find_def q (snd ln) with
        | Some d => map (fun n => {| r_name := v_name d; r_focus := nid n; r_msg := v_msg d; r_tree := unit_tree |}) (validation_results g (v_class d) (v_form d))
        | None => [] end else []) <->
      In x (if level_eqb l (fst ln) then match find_def q' (snd ln) with
        | Some d => map (fun n => {| r_name := v_name d; r_focus := nid n; r_msg := v_msg d; r_tree := unit_tree |}) (validation_results g (v_class d) (v_form d))
        | None => [] end else [])).
  { intros ln. destruct (level_eqb l (fst ln)); [|tauto].
    pose proof (find_def_pointwise (p_defs q) (p_defs q') (snd ln) Fd) as R. unfold find_def.
    destruct (List.find _ (p_defs q)) as [d|] eqn:E, (List.find _ (p_defs q')) as [d'|]; simpl in R; try contradiction; [|tauto].
    destruct R as [En [Ec [Em Hr]]]. rewrite <- En, <- Ec, <- Em.
    assert (Hw : wf_form (v_form d) = true) by (apply Hwf; apply find_some in E; tauto).
    rewrite !in_map_iff. split; intros [n [Hn Hin]]; exists n; (split; [assumption|]); now apply (rewrite_same_results _ _ Hr Hw g (v_class d) n). }
  split; intros [ln [Hln Hx]]; exists ln; (split; [assumption|]); now apply G.
Qed.

Lemma level_results_rel g p p' l : prof_rel p p' -> (forall d, In d (p_defs p) -> wf_form (v_form d) = true) ->
  forall r, In r (level_results g p l) <-> In r (level_results g p' l).
Proof.
  intros [En [Pl [Hnd [d1 [Pd Fd]]]]] Hwf r.
  set (pm := {| p_name := p_name p'; p_listed := p_listed p'; p_defs := d1 |}).
  rewrite (level_lists_in_any_order g p pm l r En Hnd Pd Pl).
  rewrite !level_results_list.
  assert (M : forall x, In x (level_list g pm l) <-> In x (level_list g p' l)).
  { apply level_list_pointwise; [reflexivity|exact Fd|]. intros d Hd. apply Hwf. eapply Permutation_in; [apply Permutation_sym; exact Pd|exact Hd]. }
  assert (Hrefl : forall a, result_eqb a a = true) by (intros a; unfold result_eqb; now rewrite !String.eqb_refl).
  rewrite (dedup_In_local result_eqb (level_list g pm l) Hrefl (results_determined g pm l)).
  rewrite (dedup_In_local result_eqb (level_list g p' l) Hrefl (results_determined g p' l)).
  apply M.
Qed.

Lemma wf_defs_rel p p' : prof_rel p p' -> forallb (fun d => wf_form (v_form d)) (p_defs p) = forallb (fun d => wf_form (v_form d)) (p_defs p').
Proof.
  intros [_ [_ [_ [d1 [Pd Fd]]]]]. rewrite (forallb_perm _ _ _ Pd). clear Pd.
  induction Fd as [|d d' a b Hd Hab IH]; simpl; [reflexivity|]. destruct Hd as [_ [_ [_ Hr]]]. now rewrite (rewrite_wf _ _ Hr), IH.
Qed.

(* C15, key order and free-list order at every depth at once: the verdict computed from a rewritten tree has the
   same members as the verdict computed from the original (or neither tree is a profile the model accepts) *)
Theorem verdict_congruence : forall defaults doc doc' g, yrw doc doc' ->
  match verdict defaults doc g, verdict defaults doc' g with
  | POk v, POk v' => forall x, In x v <-> In x v'
  | POk _, _ | _, POk _ => False
  | _, _ => True
  end.
Proof.
  intros defaults doc doc' g H. unfold verdict. pose proof (parse_profile_congruence defaults doc doc' H) as R.
  destruct (parse_profile defaults doc) as [p| |], (parse_profile defaults doc') as [p'| |]; simpl in R; try contradiction; try exact I.
  cbn [pbind]. rewrite <- (wf_defs_rel p p' R).
  destruct (forallb (fun d => wf_form (v_form d)) (p_defs p)) eqn:W; [|exact I].
  assert (Hwf : forall d, In d (p_defs p) -> wf_form (v_form d) = true) by (rewrite forallb_forall in W; exact W).
  intros x. rewrite !in_flat_map. split; intros [l [Hl Hx]]; exists l; (split; [assumption|]);
    apply in_map_iff in Hx as [r [Er Hr]]; apply in_map_iff; exists r; (split; [assumption|]);
    now apply (level_results_rel g p p' l R Hwf).
Qed.


(* the relation is inhabited beyond the identity: every key list reversed, the level list and the operands of an `or` swapped *)
Local Open Scope string_scope.
Definition ex_S (v : string) : ynode := YScalar "!!str" v.
Definition ex_I (v : string) : ynode := YScalar "!!int" v.
Definition ex_pc (p k n : string) : ynode := YMap [("propertyConstraints", YMap [(p, YMap [(k, ex_I n)])])].
Definition ex_doc : ynode :=
  YMap [("profile", ex_S "P"); ("prefixes", YMap [("ex", ex_S "http://example.org/ns#"); ("zz", ex_S "http://example.org/zz#")]);
        ("violation", YSeq [ex_S "a"; ex_S "b"]);
        ("validations", YMap [
           ("a", YMap [("targetClass", ex_S "ex.T"); ("message", ex_S "m"); ("or", YSeq [ex_pc "ex.p" "minCount" "1"; ex_pc "zz.q" "minCount" "1"])]);
           ("b", YMap [("targetClass", ex_S "ex.T");
                       ("propertyConstraints", YMap [("ex.p", YMap [("minCount", ex_I "1"); ("maxCount", ex_I "3")]); ("zz.q", YMap [("maxCount", ex_I "0")])])])])].
Definition ex_doc' : ynode :=
  YMap [("validations", YMap [
           ("b", YMap [("propertyConstraints", YMap [("zz.q", YMap [("maxCount", ex_I "0")]); ("ex.p", YMap [("maxCount", ex_I "3"); ("minCount", ex_I "1")])]);
                       ("targetClass", ex_S "ex.T")]);
           ("a", YMap [("or", YSeq [ex_pc "zz.q" "minCount" "1"; ex_pc "ex.p" "minCount" "1"]); ("message", ex_S "m"); ("targetClass", ex_S "ex.T")])]);
        ("violation", YSeq [ex_S "b"; ex_S "a"]);
        ("prefixes", YMap [("zz", ex_S "http://example.org/zz#"); ("ex", ex_S "http://example.org/ns#")]);
        ("profile", ex_S "P")].

Ltac nodup_strs := repeat (constructor; [simpl; intuition discriminate|]); constructor.

(* reflexivity, for trees whose mappings have no duplicate key (the premise of the rewriting itself) *)
Fixpoint wf_keys (y : ynode) : bool :=
  match y with
  | YScalar _ _ => true
  | YMap l => nodup_b (map fst l) && (fix go (l : list (string * ynode)) := match l with [] => true | (_, v) :: r => wf_keys v && go r end) l
  | YSeq l => (fix go (l : list ynode) := match l with [] => true | v :: r => wf_keys v && go r end) l
  end.
Lemma nodup_b_NoDup l : nodup_b l = true -> NoDup l.
Proof.
  induction l as [|x r IH]; simpl; intros H; constructor; apply andb_prop in H as [Hx Hr]; [|auto].
  intros Hin. apply negb_true_iff in Hx. assert (existsb (String.eqb x) r = true); [|congruence].
  apply existsb_exists. exists x. split; [assumption|apply String.eqb_refl].
Qed.
Lemma yrw_refl_sized : forall n y, ysize y <= n -> wf_keys y = true -> yrw y y.
Proof.
  induction n as [|n IH]; intros y Hs Hw.
  - destruct y; simpl in Hs; lia.
  - destruct y as [t v|l|l].
    + constructor.
    + simpl in Hw. apply andb_prop in Hw as [Hn Hg]. apply yrw_map with l; [now apply nodup_b_NoDup|apply Permutation_refl|].
      change (S (esize l) <= S n) in Hs. assert (Hs' : esize l <= n) by lia. clear Hs Hn.
      induction l as [|[k v] r IHr]; [constructor|]. simpl in Hs'. apply andb_prop in Hg as [Hv Hg].
      apply yrwe_cons; [apply IH; [lia|assumption]|]. apply IHr; [assumption|fold esize in Hs'; lia].
    + simpl in Hw. apply yrw_seq. change (S (isize l) <= S n) in Hs. assert (Hs' : isize l <= n) by lia. clear Hs.
      induction l as [|v r IHr]; [constructor|]. simpl in Hs'. apply andb_prop in Hw as [Hv Hg].
      apply yrwi_cons; [apply IH; [lia|assumption]|]. apply IHr; [assumption|fold isize in Hs'; lia].
Qed.
Lemma yrw_refl y : wf_keys y = true -> yrw y y.
Proof. apply (yrw_refl_sized (ysize y)). lia. Qed.
Ltac yrw_same := apply yrw_refl; reflexivity.

Example ex_docs_related : yrw ex_doc ex_doc'.
Proof.
  unfold ex_doc, ex_doc'.
  eapply yrw_map; [nodup_strs|apply Permutation_rev|]. cbn [rev app].
  apply yrwe_cons.
  { eapply yrw_map; [nodup_strs|apply Permutation_rev|]. cbn [rev app]. apply yrwe_cons; [|apply yrwe_cons; [|apply yrwe_nil]].
    - eapply yrw_map; [nodup_strs|apply Permutation_rev|]. cbn [rev app]. apply yrwe_cons; [|apply yrwe_cons; [apply yrw_scalar|apply yrwe_nil]].
      eapply yrw_map; [nodup_strs|apply Permutation_rev|]. cbn [rev app]. apply yrwe_cons; [|apply yrwe_cons; [|apply yrwe_nil]].
      + yrw_same.
      + eapply yrw_map; [nodup_strs|apply Permutation_rev|]. cbn [rev app]. apply yrwe_cons; [yrw_same|apply yrwe_cons; [yrw_same|apply yrwe_nil]].
    - eapply yrw_map; [nodup_strs|apply Permutation_rev|]. cbn [rev app].
      eapply yrwe_free; [reflexivity|apply Permutation_rev| |apply yrwe_cons; [apply yrw_scalar|apply yrwe_cons; [apply yrw_scalar|apply yrwe_nil]]].
      cbn [rev app]. apply yrwi_cons; [yrw_same|apply yrwi_cons; [yrw_same|apply yrwi_nil]]. }
  eapply yrwe_free; [reflexivity|apply Permutation_rev| |].
  { cbn [rev app]. apply yrwi_cons; [yrw_same|apply yrwi_cons; [yrw_same|apply yrwi_nil]]. }
  apply yrwe_cons; [|apply yrwe_cons; [apply yrw_scalar|apply yrwe_nil]].
  eapply yrw_map; [nodup_strs|apply Permutation_rev|]. cbn [rev app]. apply yrwe_cons; [yrw_same|apply yrwe_cons; [yrw_same|apply yrwe_nil]].
Qed.

Definition ex_graph : graph :=
  [ {| nid := "n1"; nprops := [("@type", [VStr "http://example.org/ns#T"])] |};
    {| nid := "n2"; nprops := [("@type", [VStr "http://example.org/ns#T"]); ("http://example.org/ns#p", [VStr "x"])] |} ].
Example ex_verdicts :
  verdict [] ex_doc ex_graph = POk [(Violation, "a", "n1", "m"); (Violation, "b", "n1", "Validation error")]
  /\ verdict [] ex_doc' ex_graph = POk [(Violation, "b", "n1", "Validation error"); (Violation, "a", "n1", "m")].
Proof. vm_compute. split; reflexivity. Qed.
