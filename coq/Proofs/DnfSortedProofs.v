(* Sorting the operands of `and` / `or` before they are generated changes nothing that is reported: for every function [srt]
   that only permutes operand lists, DnfSorted.dispS meets the same specification as Dnf.disp (DnfProofs.main), and the
   same fuel is enough. *)
From Coq Require Import List Bool Arith Lia Permutation.
Import ListNotations.
From ACV Require Import Model.Dnf Model.DnfSorted Proofs.DnfProofs Proofs.DnfFuel.

Lemma forallb_perm {X} (f : X -> bool) {l l'} : Permutation l l' -> forallb f l = forallb f l'.
Proof.
  induction 1; simpl; auto.
  - now rewrite IHPermutation.
  - destruct (f x), (f y); reflexivity.
  - congruence.
Qed.
Lemma existsb_perm {X} (f : X -> bool) {l l'} : Permutation l l' -> existsb f l = existsb f l'.
Proof.
  induction 1; simpl; auto.
  - now rewrite IHPermutation.
  - destruct (f x), (f y); reflexivity.
  - congruence.
Qed.

Section DnfSortedProofs.
Variables (A N P : Type).
Variables (Fpos Fneg : A -> N -> bool).
Variable children : P -> N -> list N.
Variable srt : list (rule A P) -> list (rule A P).
Hypothesis srt_perm : forall l, Permutation (srt l) l.
Notation rule := (rule A P).
Notation negate := (@negate A P).
Notation wf := (@wf A P).
Notation rs := (@rs A N P Fpos Fneg children).
Notation dispS := (@dispS A P srt).
Notation reported := (@reported A N P Fpos Fneg children).
Notation fb := (@fb A N P Fpos Fneg children).
Notation okl := (@okl A P).
Notation okg := (@okg A P).
Notation good := (@good A N P Fpos Fneg children).
Notation is_branch := (@is_branch A P).

Lemma okl_srt l : okl l -> okl (srt l).
Proof.
  intros [Hne Hw]. split.
  - intros E. apply Hne. apply Permutation_nil. rewrite <- E. apply srt_perm.
  - rewrite (forallb_perm _ (srt_perm l)). exact Hw.
Qed.

Lemma andor_branchesS : forall fuel r gs, (exists b l, r = RAnd b l \/ r = ROr b l) -> dispS fuel r = Some gs -> forallb is_branch gs = true.
Proof.
  induction fuel as [|fuel IH]; [discriminate|]. intros r gs [b [l [->| ->]]] Hd; simpl in Hd.
  - destruct b.
    + eapply IH; [|exact Hd]. eauto.
    + destruct (all_with (dispS fuel) (srt l)); [|discriminate]. inversion Hd; subst.
      rewrite forallb_map'. apply forallb_forall. reflexivity.
  - destruct b.
    + eapply IH; [|exact Hd]. eauto.
    + destruct (all_with (dispS fuel) (srt l)); [|discriminate]. inversion Hd; subst.
      rewrite forallb_map'. apply forallb_forall. reflexivity.
Qed.

Theorem mainS : forall fuel r gs, okg r -> dispS fuel r = Some gs -> good r gs.
Proof.
  induction fuel as [|fuel IH]; [discriminate|]. intros r gs Hok Hd. simpl in Hd.
  assert (IHl : forall l xs, okl l -> all_with (dispS fuel) l = Some xs ->
                Forall2 (fun r x => good r x) l xs).
  { intros l xs [_ Hw] Ha. apply all_with_spec in Ha. rewrite forallb_forall in Hw.
    induction Ha; constructor; auto.
    - apply IH; auto. left. apply Hw; left; auto.
    - apply IHHa. intros; apply Hw; right; auto. }
  destruct r as [n a|b l|b l|b i t e|b q p r].
  - inversion Hd; subst. split; [left; eauto|]. intros m.
    unfold Dnf.reported, Dnf.fb; simpl. destruct n; simpl; rewrite andb_true_r, orb_false_r, negb_involutive; reflexivity.
  - assert (Hl : okl l).
    { destruct Hok as [Hw|[b' [l' [[E|E] Ho]]]].
      - apply wf_okl in Hw as [-> Ho]. auto.
      - inversion E; subst. auto.
      - discriminate. }
    destruct b.
    + apply IH in Hd; [|right; exists false, (map negate l); split; [right; reflexivity|apply okl_negate; auto]].
      destruct Hd as [Hs Hr]. split; auto. intros m. rewrite Hr. simpl. rewrite existsb_map'.
      f_equal. apply existsb_ext_in'. intros x Hx. apply negate_sem.
      destruct Hl as [_ Hw]. rewrite forallb_forall in Hw; auto.
    + destruct (all_with (dispS fuel) (srt l)) as [xs|] eqn:Ea; [|discriminate]. inversion Hd; subst; clear Hd.
      pose proof (IHl _ _ (okl_srt _ Hl) Ea) as HF. split.
      * right. split.
        -- destruct (okl_srt _ Hl) as [Hne _]. destruct HF as [|r x l0 xs [Hs _] _]; [congruence|].
           apply shape_nonempty in Hs. destruct x; [congruence|]. simpl. discriminate.
        -- rewrite forallb_map'. apply forallb_forall. reflexivity.
      * intros m. unfold Dnf.reported. rewrite existsb_map'. simpl.
        rewrite <- (forallb_perm (fun r => rs true r m) (srt_perm l)).
        apply and_sem. clear -HF. induction HF as [|r x l0 xs [_ H] _ IHF]; constructor; auto.
  - assert (Hl : okl l).
    { destruct Hok as [Hw|[b' [l' [[E|E] Ho]]]].
      - apply wf_okl' in Hw as [_ Ho]; auto.
      - discriminate.
      - inversion E; subst; auto. }
    destruct b.
    + apply IH in Hd; [|right; exists false, (map negate l); split; [left; reflexivity|apply okl_negate; auto]].
      destruct Hd as [Hs Hr]. split; auto. intros m. rewrite Hr. simpl. rewrite forallb_map'.
      f_equal. apply forallb_ext_in'. intros x Hx. apply negate_sem.
      destruct Hl as [_ Hw]. rewrite forallb_forall in Hw; auto.
    + destruct (all_with (dispS fuel) (srt l)) as [xs|] eqn:Ea; [|discriminate]. inversion Hd; subst; clear Hd.
      pose proof (IHl _ _ (okl_srt _ Hl) Ea) as HF. split.
      * right. split.
        -- unfold expand. intros E. apply map_eq_nil in E. revert E.
           apply expand_nonempty; [apply branchsets_nonempty|discriminate].
        -- rewrite forallb_map'. apply forallb_forall. reflexivity.
      * intros m. unfold Dnf.reported. rewrite existsb_map'. simpl. unfold expand. rewrite expand_sem.
        simpl. rewrite orb_false_r.
        rewrite <- (existsb_perm (fun r => rs true r m) (srt_perm l)).
        apply or_sem.
        clear -HF. induction HF as [|r x l0 xs [Hs H] _ IHF]; constructor; auto.
  - assert (Hw : wf i = true /\ wf t = true /\ match e with Some e' => b = false /\ wf e' = true | None => True end).
    { destruct Hok as [Hw|[b' [l' [[E|E] _]]]]; try discriminate. simpl in Hw.
      apply andb_prop in Hw as [Hw He]. apply andb_prop in Hw as [Hi Ht]. repeat split; auto.
      destruct e; auto. apply andb_prop in He as [Hb He]. destruct b; [discriminate|auto]. }
    destruct Hw as [Hi [Ht He]].
    destruct (dispS fuel (ROr b [negate i; t])) as [a|] eqn:E1; [|discriminate].
    pose proof E1 as E1'. apply IH in E1; [|right; exists b, [negate i; t]; split; [right; reflexivity|split; [discriminate|simpl; rewrite wf_negate, Ht; auto]]].
    destruct E1 as [S1 R1].
    destruct e as [e'|].
    + destruct He as [-> He].
      destruct (dispS fuel (ROr false [i; e'])) as [c|] eqn:E2; [|discriminate]. inversion Hd; subst; clear Hd.
      pose proof E2 as E2'. apply IH in E2; [|right; exists false, [i; e']; split; [right; reflexivity|split; [discriminate|simpl; rewrite Hi, He; auto]]].
      destruct E2 as [S2 R2]. split.
      * right. split.
        -- apply shape_nonempty in S1. destruct a; [congruence|discriminate].
        -- rewrite forallb_app.
           assert (B1 : forallb is_branch a = true) by (eapply andor_branchesS; [|exact E1']; eauto).
           assert (B2 : forallb is_branch c = true) by (eapply andor_branchesS; [|exact E2']; eauto).
           rewrite B1, B2. reflexivity.
      * intros m. rewrite reported_app, R1, R2. simpl. rewrite !orb_false_r.
        rewrite (@negate_sem _ _ _ Fpos Fneg children i Hi). simpl. rewrite negb_andb. reflexivity.
    + inversion Hd; subst; clear Hd. split; auto. intros m. rewrite R1. simpl. destruct b; simpl.
      * rewrite andb_true_r. rewrite (@negate_sem _ _ _ Fpos Fneg children i Hi). reflexivity.
      * rewrite orb_false_r. rewrite (@negate_sem _ _ _ Fpos Fneg children i Hi). reflexivity.
  - assert (Hw : wf r = true).
    { destruct Hok as [Hw|[b' [l' [[E|E] _]]]]; try discriminate. exact Hw. }
    destruct (dispS fuel r) as [xs|] eqn:E; [|discriminate]. inversion Hd; subst; clear Hd.
    apply IH in E; [|left; auto]. destruct E as [_ R]. split.
    + right. split; [discriminate|reflexivity].
    + intros m. unfold Dnf.reported, Dnf.fb. cbn [existsb as_branch forallb]. rewrite andb_true_r, orb_false_r.
      cbn [fires Dnf.rs].
      rewrite (filter_ext_in' _ (fun c => negb (rs true r c))).
      2:{ intros c _. rewrite <- R. unfold Dnf.reported. rewrite existsb_map'. reflexivity. }
      destruct b; simpl; destruct (qtest q _ _); reflexivity.
Qed.
End DnfSortedProofs.

(* the fuel of Dnf.disp is enough for dispS too *)
Section DnfSortedFuel.
Variables (A P : Type).
Variable srt : list (rule A P) -> list (rule A P).
Hypothesis srt_perm : forall l, Permutation (srt l) l.
Notation rule := (rule A P).
Notation dispS := (@dispS A P srt).

Lemma sum_with_perm (f : rule -> nat) l l' : Permutation l l' -> sum_with f l = sum_with f l'.
Proof. induction 1; simpl; lia. Qed.

Theorem fuel_enoughS : forall fuel r, mu r < fuel -> dispS fuel r <> None.
Proof.
  induction fuel as [|fuel IH]; intros r Hm; [lia|].
  assert (Hl : forall l, 2 * sum_with (@weight A P) l + 1 < fuel -> all_with (dispS fuel) (srt l) <> None).
  { intros l Hlt. apply all_with_some. intros x Hx. apply IH.
    assert (Hx' : In x l) by (eapply Permutation_in; [apply srt_perm|exact Hx]).
    pose proof (@sum_with_in A P (@weight A P) l x Hx'). unfold mu.
    assert (flag x <= 1) by (destruct x as [|[]|[]| |]; simpl; lia). lia. }
  destruct r as [n a|b l|b l|b i t e|b q p r]; cbn [DnfSorted.dispS].
  - discriminate.
  - destruct b.
    + apply IH. destruct (@mu_negated_list A P l). unfold mu in Hm; simpl in Hm. lia.
    + assert (Hx : all_with (dispS fuel) (srt l) <> None) by (apply Hl; unfold mu in Hm; simpl in Hm; lia).
      destruct (all_with (dispS fuel) (srt l)); [discriminate|congruence].
  - destruct b.
    + apply IH. destruct (@mu_negated_list A P l). unfold mu in Hm; simpl in Hm. lia.
    + assert (Hx : all_with (dispS fuel) (srt l) <> None) by (apply Hl; unfold mu in Hm; simpl in Hm; lia).
      destruct (all_with (dispS fuel) (srt l)); [discriminate|congruence].
  - pose proof (@weight_negate A P i) as Hni.
    assert (H1 : dispS fuel (ROr b [negate i; t]) <> None).
    { apply IH. unfold mu in *. destruct e, b; simpl in *; lia. }
    destruct (dispS fuel (ROr b [negate i; t])); [|congruence].
    destruct e as [e'|]; [|discriminate].
    assert (H2 : dispS fuel (ROr b [i; e']) <> None).
    { apply IH. unfold mu in *. destruct b; simpl in *; lia. }
    destruct (dispS fuel (ROr b [i; e'])); [discriminate|congruence].
  - assert (H1 : dispS fuel r <> None).
    { apply IH. unfold mu in *. simpl in Hm. assert (flag r <= 1) by (destruct r as [|[]|[]| |]; simpl; lia). lia. }
    destruct (dispS fuel r); [discriminate|congruence].
Qed.
End DnfSortedFuel.
