(* C05 / C15 (evaluation side): what a profile reports depends on the input graph only through its SET of
   triples - node order, the order of a node's properties, the order and multiplicity of a property's values
   do not matter.  For every path, atom and formula of any depth. *)
From Coq Require Import Permutation.
From ACV Require Import Base.Strs Model.Graph Model.PathGrammar Model.PathSem Model.Dnf Model.Rules.
From ACV Require Import Proofs.PathSemProofs Proofs.DnfProofs Proofs.RulesProofs.
Local Open Scope list_scope.

(* two graphs with the same triples: the same node ids, and for every node and property the same values as sets *)
Definition wf_graph (g : graph) : Prop := NoDup (map nid g).
Definition same_triples (g g' : graph) : Prop :=
  wf_graph g /\ wf_graph g' /\
  (forall id, in_graph g id = in_graph g' id) /\
  (forall id n n' iri v, find_node g id = Some n -> find_node g' id = Some n' -> (In v (props n iri) <-> In v (props n' iri))).

Lemma same_triples_sym g g' : same_triples g g' -> same_triples g' g.
Proof.
  intros [W [W' [Hi Hp]]]. split; [exact W'|]. split; [exact W|]. split; [intros; symmetry; apply Hi|].
  intros id n n' iri v Hf Hf'. symmetry. eapply Hp; eauto.
Qed.

Lemma find_node_some g id n : find_node g id = Some n -> In n g /\ nid n = id.
Proof. unfold find_node. intros H. apply find_some in H as [H1 H2]. apply String.eqb_eq in H2. auto. Qed.
Lemma find_node_of_member g n : wf_graph g -> In n g -> find_node g (nid n) = Some n.
Proof.
  unfold wf_graph, find_node. induction g as [|m g IH]; simpl; intros Hnd Hin; [destruct Hin|].
  inversion Hnd as [|? ? Hm Hg]; subst. destruct Hin as [->|Hin].
  - now rewrite String.eqb_refl.
  - destruct (String.eqb (nid m) (nid n)) eqn:E; [|auto].
    apply String.eqb_eq in E. exfalso. apply Hm. rewrite E. now apply in_map.
Qed.
Lemma in_graph_find g id : in_graph g id = true <-> exists n, find_node g id = Some n.
Proof. unfold in_graph. destruct (find_node g id); split; intros H; eauto; try discriminate. destruct H; discriminate. Qed.

Section Equiv.
Variables g g' : graph.
Hypothesis HE : same_triples g g'.

Lemma counterpart id n : find_node g id = Some n -> exists n', find_node g' id = Some n'.
Proof.
  destruct HE as [_ [_ [Hi _]]]. intros H. apply in_graph_find. rewrite <- Hi. apply in_graph_find. eauto.
Qed.

Lemma subjects_equiv iri id x : (exists m, In m (subjects g iri id) /\ nid m = x) -> exists m', In m' (subjects g' iri id) /\ nid m' = x.
Proof.
  destruct HE as [W [W' [Hi Hp]]]. intros [m [Hm <-]]. unfold subjects in *. apply filter_In in Hm as [Hin Hl].
  pose proof (find_node_of_member g m W Hin) as Hf. destruct (counterpart _ _ Hf) as [m' Hf'].
  exists m'. destruct (find_node_some _ _ _ Hf') as [Hin' Hid]. split; [|assumption]. apply filter_In. split; [assumption|].
  apply existsb_exists in Hl as [v [Hv Hlv]]. apply existsb_exists. exists v. split; [|assumption].
  exact (proj1 (Hp (nid m) m m' iri v Hf Hf') Hv).
Qed.
End Equiv.

Lemma den_step_equiv g g' : same_triples g g' -> forall iri inv n a, In a (den_step g iri inv n) -> In a (den_step g' iri inv n).
Proof.
  intros HE iri inv n a. unfold den_step. destruct (find_node g n) as [nd|] eqn:Ef; [|intros []].
  destruct (counterpart g g' HE _ _ Ef) as [nd' Ef']. rewrite Ef'. destruct inv.
  - rewrite !in_map_iff. intros [m [<- Hm]]. destruct (subjects_equiv g g' HE iri n (nid m)) as [m' [Hm' Hid]]; [eauto|].
    exists m'. split; [now rewrite Hid|assumption].
  - rewrite !in_map_iff. intros [v [<- Hv]]. exists v. split; [reflexivity|]. destruct HE as [_ [_ [_ Hp]]].
    exact (proj1 (Hp n nd nd' iri v Ef Ef') Hv).
Qed.

Definition den_incl (g g' : graph) (p : path) : Prop := forall n a, In a (den g p n) -> In a (den g' p n).

Lemma den_seq_incl g g' : same_triples g g' -> forall l, Forall (den_incl g g') l -> forall n a, In a (den_seq g l n) -> In a (den_seq g' l n).
Proof.
  intros HE l. induction 1 as [|q r Hq Hr IH]; intros n a Hin; [destruct Hin|].
  destruct r as [|q' r'].
  - now apply Hq.
  - change (den_seq g (q :: q' :: r') n) with
      (flat_map (fun a => match a with ARef x => if in_graph g x then den_seq g (q' :: r') x else [] | ALit _ => [] end) (den g q n)) in Hin.
    change (den_seq g' (q :: q' :: r') n) with
      (flat_map (fun a => match a with ARef x => if in_graph g' x then den_seq g' (q' :: r') x else [] | ALit _ => [] end) (den g' q n)).
    apply in_flat_map in Hin as [b [Hb Hin]]. apply in_flat_map. exists b. split; [now apply Hq|].
    destruct b as [x|v]; [|assumption]. destruct HE as [_ [_ [Hi _]]]. rewrite <- Hi.
    destruct (in_graph g x); [|assumption]. now apply IH.
Qed.

Lemma den_incl_all g g' : same_triples g g' -> forall p, den_incl g g' p.
Proof.
  intros HE. induction p as [iri inv tr|l IHl|l IHl] using path_ind2; intros n a Hin.
  - simpl in *. eapply den_step_equiv; eauto.
  - rewrite den_And in *. eapply den_seq_incl; eauto.
  - simpl in *. apply in_flat_map in Hin as [q [Hq Hin]]. apply in_flat_map. exists q. split; [assumption|].
    rewrite Forall_forall in IHl. now apply IHl.
Qed.

(* the denotation of every path is the same set in both graphs *)
Theorem den_equiv g g' : same_triples g g' -> forall p n a, In a (den g p n) <-> In a (den g' p n).
Proof. intros HE p n a. split; [apply den_incl_all; assumption|apply den_incl_all; now apply same_triples_sym]. Qed.

(* ------------------------------------------------------------------ values seen by the atoms *)
(* model_values is a duplicate-free list whose erased members are the denotation: between the two graphs the
   erased lists have the same members; the raw lists too, because for fetch = false a value is raw unless the
   last step is inverse, which is decided by the path, not by the graph *)
Lemma sem_equiv_incl g g' : same_triples g g' -> forall p fetch cur r, In r (sem g p fetch cur) -> In r (sem g' p fetch cur).
Proof.
  intros HE. induction p as [iri inv tr|l IHl|l IHl] using path_ind2; intros fetch cur r Hin.
  - simpl in *. unfold step_from in *. destruct cur as [id|v]; [|assumption].
    destruct (find_node g id) as [nd|] eqn:Ef; [|destruct Hin]. destruct (counterpart g g' HE _ _ Ef) as [nd' Ef']. rewrite Ef'. simpl in *.
    destruct inv.
    + apply in_map_iff in Hin as [m [<- Hm]]. destruct (subjects_equiv g g' HE iri id (nid m)) as [m' [Hm' Hid]]; [eauto|].
      apply in_map_iff. exists m'. split; [now rewrite Hid|assumption].
    + destruct HE as [_ [_ [Hi Hp]]]. destruct fetch.
      * apply in_flat_map in Hin as [v [Hv Hin]]. apply in_flat_map. exists v. split; [exact (proj1 (Hp id nd nd' iri v Ef Ef') Hv)|].
        destruct v; simpl in *; try assumption. now rewrite <- Hi.
      * apply in_map_iff in Hin as [v [<- Hv]]. apply in_map. exact (proj1 (Hp id nd nd' iri v Ef Ef') Hv).
  - rewrite sem_And in *. revert fetch cur r Hin. induction IHl as [|q r0 Hq Hr IH]; intros fetch cur r Hin; [destruct Hin|].
    destruct r0 as [|q' r'].
    + now apply Hq.
    + change (sem_seq g fetch (q :: q' :: r') cur) with (flat_map (sem_seq g fetch (q' :: r')) (sem g q true cur)) in Hin.
      change (sem_seq g' fetch (q :: q' :: r') cur) with (flat_map (sem_seq g' fetch (q' :: r')) (sem g' q true cur)).
      apply in_flat_map in Hin as [y [Hy Hin]]. apply in_flat_map. exists y. split; [now apply Hq|now apply IH].
  - simpl in *. apply in_flat_map in Hin as [q [Hq Hin]]. apply in_flat_map. exists q. split; [assumption|].
    rewrite Forall_forall in IHl. now apply IHl.
Qed.

Theorem values_equiv g g' : same_triples g g' -> forall p fetch n r, In r (model_values g p fetch n) <-> In r (model_values g' p fetch n).
Proof.
  intros HE p fetch n r. rewrite !model_values_sem. split; [apply sem_equiv_incl; assumption|apply sem_equiv_incl; now apply same_triples_sym].
Qed.

(* two duplicate-free lists with the same members: every aggregate the atoms use agrees *)
Lemma nodup_same_length {X} (a b : list X) : NoDup a -> NoDup b -> (forall x, In x a <-> In x b) -> List.length a = List.length b.
Proof. apply same_members_length. Qed.
Lemma existsb_same {X} (f : X -> bool) a b : (forall x, In x a <-> In x b) -> existsb f a = existsb f b.
Proof.
  intros H. destruct (existsb f a) eqn:Ea; symmetry.
  - apply existsb_exists in Ea as [x [Hx Hf]]. apply existsb_exists. exists x. split; [now apply H|assumption].
  - destruct (existsb f b) eqn:Eb; [|reflexivity]. apply existsb_exists in Eb as [x [Hx Hf]].
    assert (existsb f a = true); [|congruence]. apply existsb_exists. exists x. split; [now apply H|assumption].
Qed.
Lemma forallb_same {X} (f : X -> bool) a b : (forall x, In x a <-> In x b) -> forallb f a = forallb f b.
Proof.
  intros H. rewrite <- (negb_involutive (forallb f a)), <- (negb_involutive (forallb f b)). f_equal.
  rewrite <- !existsb_negb. now apply existsb_same.
Qed.
Lemma nonempty_same {X} (a b : list X) : (forall x, In x a <-> In x b) -> nonempty a = nonempty b.
Proof.
  intros H. destruct a as [|x a], b as [|y b]; simpl; try reflexivity.
  - exfalso. apply (proj2 (H y)). now left.
  - exfalso. apply (proj1 (H x)). now left.
Qed.
Lemma filter_length_same {X} (f : X -> bool) a b : NoDup a -> NoDup b -> (forall x, In x a <-> In x b) ->
  List.length (filter f a) = List.length (filter f b).
Proof.
  intros Ha Hb H. apply nodup_same_length; [now apply NoDup_filter|now apply NoDup_filter|].
  intros x. rewrite !filter_In. rewrite H. tauto.
Qed.

Section Atoms.
Variables g g' : graph.
Hypothesis HE : same_triples g g'.

Lemma vals_same p n : forall r, In r (vals g p n) <-> In r (vals g' p n).
Proof. intros r. unfold vals. apply (values_equiv g g' HE). Qed.
Lemma vals_length p n : List.length (vals g p n) = List.length (vals g' p n).
Proof. apply nodup_same_length; [apply values_are_a_set|apply values_are_a_set|apply vals_same]. Qed.
Lemma strs_same p n : forall s, In s (strs_of (vals g p n)) <-> In s (strs_of (vals g' p n)).
Proof.
  intros s. unfold strs_of. rewrite !in_map_iff. split; intros [r [E H]]; exists r; (split; [assumption|]); [apply (proj1 (vals_same p n r) H)|apply (proj2 (vals_same p n r) H)].
Qed.
Lemma str_mem_same a p n : str_mem a (strs_of (vals g p n)) = str_mem a (strs_of (vals g' p n)).
Proof. unfold str_mem. apply existsb_same. apply strs_same. Qed.

Lemma Fpos_equiv a n : Fpos g a n = Fpos g' a n.
Proof.
  destruct a; simpl; unfold quantified, quantified_hoisted;
    rewrite ?vals_length; try reflexivity; try (apply existsb_same; apply vals_same).
  - rewrite (nonempty_same _ _ (vals_same p n)). f_equal. f_equal. apply forallb_ext_in'. intros; apply str_mem_same.
  - rewrite (nonempty_same _ _ (vals_same p n)). f_equal. f_equal. apply existsb_ext_in'. intros; apply str_mem_same.
  - rewrite (existsb_same _ _ _ (vals_same p n)). apply existsb_ext_in'. intros x _. apply existsb_same. apply vals_same.
Qed.
Lemma Fneg_equiv a n : Fneg g a n = Fneg g' a n.
Proof.
  destruct a; simpl; unfold quantified, quantified_hoisted;
    rewrite ?vals_length; try reflexivity; try (apply existsb_same; apply vals_same).
  - rewrite (nonempty_same _ _ (vals_same p n)). f_equal. apply forallb_ext_in'. intros; apply str_mem_same.
  - rewrite (nonempty_same _ _ (vals_same p n)). f_equal. apply existsb_ext_in'. intros; apply str_mem_same.
  - rewrite (existsb_same _ _ _ (vals_same p n)). apply existsb_ext_in'. intros x _. apply existsb_same. apply vals_same.
Qed.

Lemma children_same p n : forall x, In x (children g p n) <-> In x (children g' p n).
Proof.
  intros x. unfold children, model_nodes. rewrite !(dedup_In String.eqb str_eqb_eq), !in_map_iff.
  split; intros [r [E H]]; exists r; (split; [assumption|]); [apply (proj1 (values_equiv g g' HE p true n r) H)|apply (proj2 (values_equiv g g' HE p true n r) H)].
Qed.
Lemma children_nodup p n : NoDup (children g p n) /\ NoDup (children g' p n).
Proof. split; apply dedup_NoDup; apply str_eqb_eq. Qed.

(* every formula, both polarities, every node *)
Theorem lsat_equiv : forall f pol n, lsat g pol f n = lsat g' pol f n.
Proof.
  induction f as [a|l IH|l IH|f IH|i t e IHi IHt IHe|q p f IH] using form_ind2; intros pol n; simpl.
  - now rewrite Fpos_equiv, Fneg_equiv.
  - rewrite Forall_forall in IH. destruct pol; [apply forallb_ext_in'|apply existsb_ext_in']; intros; now apply IH.
  - rewrite Forall_forall in IH. destruct pol; [apply existsb_ext_in'|apply forallb_ext_in']; intros; now apply IH.
  - apply IH.
  - destruct e as [e'|]; simpl in IHe; rewrite ?IHi, ?IHt, ?IHe; reflexivity.
  - destruct (children_nodup p n) as [N1 N2].
    rewrite (nodup_same_length _ _ N1 N2 (children_same p n)).
    rewrite (filter_ext_in' _ (fun c => negb (lsat g' true f c))) by (intros; now rewrite IH).
    rewrite (filter_length_same _ _ _ N1 N2 (children_same p n)). reflexivity.
Qed.

Theorem csat_equiv : forall f n, csat g f n = csat g' f n.
Proof.
  induction f as [a|l IH|l IH|f IH|i t e IHi IHt IHe|q p f IH] using form_ind2; intros n; simpl.
  - now rewrite Fpos_equiv.
  - rewrite Forall_forall in IH. apply forallb_ext_in'; intros; now apply IH.
  - rewrite Forall_forall in IH. apply existsb_ext_in'; intros; now apply IH.
  - now rewrite IH.
  - destruct e as [e'|]; simpl in IHe; rewrite ?IHi, ?IHt, ?IHe; reflexivity.
  - destruct (children_nodup p n) as [N1 N2].
    rewrite (nodup_same_length _ _ N1 N2 (children_same p n)).
    rewrite (filter_ext_in' _ (fun c => negb (csat g' f c))) by (intros; now rewrite IH).
    rewrite (filter_length_same _ _ _ N1 N2 (children_same p n)). reflexivity.
Qed.

(* what a validation reports: the same focus nodes *)
Theorem reported_equiv : forall f n, wf_form f = true ->
  model_reported g (disp_fuel f) f n = model_reported g' (disp_fuel f) f n.
Proof. intros f n Hw. rewrite !reported_literal by assumption. now rewrite lsat_equiv. Qed.

Lemma has_type_equiv id n n' cls : find_node g id = Some n -> find_node g' id = Some n' -> has_type n cls = has_type n' cls.
Proof.
  intros Hf Hf'. unfold has_type, types_of. apply existsb_same. intros v. destruct HE as [_ [_ [_ Hp]]]. exact (Hp id n n' "@type" v Hf Hf').
Qed.

End Atoms.

Theorem results_equiv : forall g g', same_triples g g' -> forall cls f id, wf_form f = true ->
  (exists n, In n (validation_results g cls f) /\ nid n = id) <-> (exists n', In n' (validation_results g' cls f) /\ nid n' = id).
Proof.
  assert (Hdir : forall g1 g2, same_triples g1 g2 -> forall cls f id, wf_form f = true ->
            (exists n, In n (validation_results g1 cls f) /\ nid n = id) -> exists n', In n' (validation_results g2 cls f) /\ nid n' = id).
  { clear. intros g1 g2 HE12 cls f id Hw [n [Hin Hid]]. pose proof HE12 as HE12'. destruct HE12' as [W [W' [Hi Hp]]].
    apply (results_exactly g1 cls f Hw) in Hin as [Hn [Ht Hl]].
    pose proof (find_node_of_member g1 n W Hn) as Hf. rewrite Hid in Hf.
    destruct (counterpart g1 g2 HE12 _ _ Hf) as [n' Hf']. destruct (find_node_some _ _ _ Hf') as [Hn' Hid'].
    exists n'. split; [|assumption]. apply (results_exactly g2 cls f Hw). repeat split; [assumption| |].
    - rewrite <- Ht. symmetry. unfold has_type, types_of. apply existsb_same. intros v. exact (Hp id n n' "@type" v Hf Hf').
    - rewrite Hid', <- Hid. rewrite <- Hl. symmetry. rewrite Hid. apply (lsat_equiv g1 g2 HE12).
  }
  intros g g' HE cls f id Hw. split; [apply Hdir; assumption|apply Hdir; [now apply same_triples_sym|assumption]].
Qed.
