(* The executable test Model/YamlRewrite.yrw_b answers true only for trees related by the rewriting relation yrw. *)
From Coq Require Import Permutation.
From ACV Require Import Base.Strs Model.Graph Model.Yaml Model.YamlRewrite.
From ACV Require Import Proofs.YamlProofs Proofs.ParserCongruence.
Local Open Scope list_scope.

Lemma assoc_In {V} k (l : list (string * V)) v : assoc k l = Some v -> In (k, v) l.
Proof.
  induction l as [|[k' v'] l IH]; simpl; [discriminate|]. destruct (String.eqb k' k) eqn:E.
  - intros H. inversion H; subst. apply String.eqb_eq in E. subst. now left.
  - intros H. right. auto.
Qed.
Lemma In_assoc {V} k (l : list (string * V)) v : NoDup (map fst l) -> In (k, v) l -> assoc k l = Some v.
Proof.
  induction l as [|[k' v'] l IH]; simpl; [tauto|]. intros Hnd [H|H].
  - inversion H; subst. now rewrite String.eqb_refl.
  - inversion Hnd; subst. destruct (String.eqb k' k) eqn:E; [|auto].
    apply String.eqb_eq in E. subst. exfalso. apply H2. apply in_map_iff. exists (k, v). auto.
Qed.
Lemma assoc_None_notin {V} k (l : list (string * V)) : assoc k l = None -> ~ In k (map fst l).
Proof.
  induction l as [|[k' v'] l IH]; simpl; [tauto|]. destruct (String.eqb k' k) eqn:E; [discriminate|].
  intros H [Hk|Hk]; [subst; now rewrite String.eqb_refl in E|]. now apply IH.
Qed.

Lemma remove_first_spec {X} (h : X -> bool) l l' : remove_first h l = Some l' ->
  exists pre y post, l = pre ++ y :: post /\ l' = pre ++ post /\ h y = true.
Proof.
  revert l'. induction l as [|x r IH]; simpl; intros l' H; [discriminate|]. destruct (h x) eqn:E.
  - inversion H; subst. exists [], x, l'. auto.
  - destruct (remove_first h r) as [r'|]; [|discriminate]. inversion H; subst.
    destruct (IH r' eq_refl) as [pre [y [post [E1 [E2 E3]]]]]. subst. exists (x :: pre), y, post. auto.
Qed.

Lemma yrw_items_app a a' b b' : yrw_items a a' -> yrw_items b b' -> yrw_items (a ++ b) (a' ++ b').
Proof. induction 1; simpl; auto. intros. constructor; auto. Qed.
Lemma yrw_items_split a pre post : yrw_items a (pre ++ post) ->
  exists a1 a2, a = a1 ++ a2 /\ yrw_items a1 pre /\ yrw_items a2 post.
Proof.
  revert a. induction pre as [|p pre IH]; simpl; intros a H.
  - exists [], a. repeat split; auto. constructor.
  - inversion H; subst. destruct (IH _ H4) as [a1 [a2 [E [H1 H2]]]]. subst. exists (v :: a1), a2. repeat split; auto. now constructor.
Qed.

Section Step.
Variable n : nat.
Hypothesis IH : forall y y', yrw_b n y y' = true -> yrw y y'.

Definition items_b := fix go (a b : list ynode) : bool :=
  match a, b with [], [] => true | x :: r, x' :: r' => yrw_b n x x' && go r r' | _, _ => false end.
Definition match_perm := fix go (a b : list ynode) : bool :=
  match a with
  | [] => match b with [] => true | _ => false end
  | x :: r => match remove_first (yrw_b n x) b with Some b' => go r b' | None => false end
  end.

Lemma items_b_sound a b : items_b a b = true -> yrw_items a b.
Proof.
  revert b. induction a as [|x r IHr]; intros [|x' r'] H; simpl in H; try discriminate; [constructor|].
  apply andb_prop in H as [H1 H2]. constructor; auto.
Qed.

Lemma match_perm_sound a : forall b, match_perm a b = true -> exists a1, Permutation a a1 /\ yrw_items a1 b.
Proof.
  induction a as [|x r IHr]; intros b H; simpl in H.
  - destruct b; [|discriminate]. exists []. split; constructor.
  - destruct (remove_first (yrw_b n x) b) as [b'|] eqn:E; [|discriminate].
    destruct (remove_first_spec _ _ _ E) as [pre [y [post [E1 [E2 E3]]]]]. subst.
    destruct (IHr _ H) as [r1 [P1 I1]]. destruct (yrw_items_split _ _ _ I1) as [r1a [r1b [Er [Ia Ib]]]]. subst r1.
    exists (r1a ++ x :: r1b). split.
    + apply Permutation_cons_app. exact P1.
    + apply yrw_items_app; [assumption|]. constructor; auto.
Qed.

Lemma map_case l l' :
  nodup_b (map fst l) = true -> nodup_b (map fst l') = true -> List.length l = List.length l' ->
  forallb (fun kv : string * ynode =>
             match assoc (fst kv) l' with
             | Some v' => yrw_b n (snd kv) v'
                          || (free_list_key (fst kv) && match snd kv, v' with YSeq a, YSeq b => match_perm a b | _, _ => false end)
             | None => false
             end) l = true ->
  yrw (YMap l) (YMap l').
Proof.
  intros Hn Hn' Hlen Hall. apply nodup_b_NoDup in Hn. apply nodup_b_NoDup in Hn'. rewrite forallb_forall in Hall.
  (* the keys of l are keys of l', and conversely *)
  assert (Hinc : incl (map fst l) (map fst l')).
  { intros k Hk. apply in_map_iff in Hk as [[k0 v] [Ek Hin]]. simpl in Ek. subst k0. specialize (Hall _ Hin). simpl in Hall.
    destruct (assoc k l') as [v'|] eqn:E; [|discriminate]. apply assoc_In in E. apply in_map_iff. exists (k, v'). auto. }
  assert (Hinc' : incl (map fst l') (map fst l)).
  { apply NoDup_length_incl; [assumption| |assumption]. rewrite !map_length. lia. }
  set (F := fun kv' : string * ynode => (fst kv', match assoc (fst kv') l with Some v => v | None => snd kv' end)).
  assert (Hkeys : map fst (map F l') = map fst l') by (rewrite map_map; reflexivity).
  apply yrw_map with (map F l'); [assumption| |].
  - apply Permutation_sym. apply NoDup_Permutation_bis.
    + apply (NoDup_map_inv fst). now rewrite Hkeys.
    + rewrite map_length. lia.
    + intros [k v] Hin. apply in_map_iff in Hin as [[k' v'] [E Hin']]. unfold F in E. simpl in E. inversion E; subst k. clear E.
      assert (Hk : In k' (map fst l)) by (apply Hinc'; apply in_map_iff; exists (k', v'); auto).
      destruct (assoc k' l) as [v0|] eqn:Ea; [|exfalso; now apply (assoc_None_notin k' l Ea)].
      subst. now apply assoc_In.
  - assert (G : forall s, incl s l' -> yrw_entries (map F s) s).
    { induction s as [|[k v'] s IHs]; intros Hs; simpl; [constructor|].
      assert (Hin' : In (k, v') l') by (apply Hs; now left).
      assert (Hk : In k (map fst l)) by (apply Hinc'; apply in_map_iff; exists (k, v'); auto).
      destruct (assoc k l) as [v|] eqn:Ea; [|exfalso; now apply (assoc_None_notin k l Ea)].
      unfold F at 1. simpl. rewrite Ea.
      pose proof (Hall _ (assoc_In _ _ _ Ea)) as C. simpl in C. rewrite (In_assoc k l' v' Hn' Hin') in C.
      assert (Hrest : yrw_entries (map F s) s) by (apply IHs; intros x Hx; apply Hs; now right).
      apply orb_prop in C as [C|C].
      + apply yrwe_cons; [now apply IH|assumption].
      + apply andb_prop in C as [Cf Cm]. destruct v as [| |a]; try discriminate. destruct v' as [| |b]; try discriminate.
        destruct (match_perm_sound a b Cm) as [a1 [P1 I1]]. now apply yrwe_free with a1. }
    apply G. apply incl_refl.
Qed.
End Step.

Theorem yrw_b_sound : forall n y y', yrw_b n y y' = true -> yrw y y'.
Proof.
  induction n as [|n IH]; intros y y' H; [discriminate|].
  destruct y as [t v|l|l], y' as [t' v'|l'|l']; try discriminate.
  - simpl in H. apply andb_prop in H as [H1 H2]. apply String.eqb_eq in H1, H2. subst. constructor.
  - cbn [yrw_b] in H. fold (match_perm n) in H.
    apply andb_prop in H as [H Hall]. apply andb_prop in H as [H Hlen]. apply andb_prop in H as [Hn Hn'].
    apply Nat.eqb_eq in Hlen. now apply (map_case n IH).
  - cbn [yrw_b] in H. fold (items_b n) in H. apply yrw_seq. now apply (items_b_sound n IH).
Qed.

Corollary related_sound y y' : related y y' = true -> yrw y y'.
Proof. apply yrw_b_sound. Qed.

Example related_example : related ex_doc ex_doc' = true /\ related ex_doc (ex_pc "ex.p" "minCount" "1") = false
  /\ related (ex_pc "ex.p" "minCount" "1") (ex_pc "ex.p" "minCount" "2") = false.
Proof. vm_compute. repeat split. Qed.
