(* Results of a validation run, traced back to the profile and the graph. *)
From ACV Require Import Base.Strs Model.Graph Model.PathGrammar Model.PathSem Model.Dnf Model.Rules Model.Report Model.Engine.
From ACV Require Import Proofs.ReportProofs Proofs.RulesProofs Proofs.PathSemProofs.

Lemma level_eqb_eq a b : level_eqb a b = true <-> a = b.
Proof. destruct a, b; simpl; split; intros; try discriminate; congruence. Qed.

Lemma level_results_spec g p l r : In r (level_results g p l) ->
  exists name d n, In (l, name) (p_listed p) /\ find_def p name = Some d /\ r_name r = v_name d /\ v_name d = name
                   /\ In n (validation_results g (v_class d) (v_form d)) /\ r_focus r = nid n /\ r_msg r = v_msg d
                   /\ r_tree r = unit_tree.
Proof.
  unfold level_results. intros Hd.
  assert (Hin0 : In r (flat_map (fun ln => if level_eqb l (fst ln) then
                        match find_def p (snd ln) with
                        | Some d => map (fun n => {| r_name := v_name d; r_focus := nid n; r_msg := v_msg d; r_tree := unit_tree |})
                                        (validation_results g (v_class d) (v_form d))
                        | None => []
                        end
                      else []) (p_listed p))).
  { clear -Hd. revert Hd. generalize (flat_map (fun ln => if level_eqb l (fst ln) then
                        match find_def p (snd ln) with
                        | Some d => map (fun n => {| r_name := v_name d; r_focus := nid n; r_msg := v_msg d; r_tree := unit_tree |})
                                        (validation_results g (v_class d) (v_form d))
                        | None => []
                        end
                      else []) (p_listed p)) as L.
    induction L as [|x L IH]; simpl; [tauto|]. destruct (existsb (result_eqb x) L); simpl; intros H; [right; auto|].
    destruct H; [left; assumption|right; auto]. }
  clear Hd. revert Hin0. rewrite in_flat_map. intros [[l' name] [Hl Hin]]. simpl in Hin.
  destruct (level_eqb l l') eqn:El; [|destruct Hin]. apply level_eqb_eq in El. subst l'.
  destruct (find_def p name) as [d|] eqn:Ed; [|destruct Hin].
  apply in_map_iff in Hin as [n [<- Hn]]. exists name, d, n. simpl. repeat split; auto.
  unfold find_def in Ed. apply find_some in Ed as [_ E]. now apply String.eqb_eq in E.
Qed.

Lemma build_level_in l : forall rs i o, In o (build_level l i rs) -> In (o_res o) rs /\ o_severity o = severity_iri l.
Proof.
  induction rs as [|r rs IH]; simpl; intros i o; [tauto|]. intros [<-|Hin]; [simpl; auto|].
  destruct (IH _ _ Hin). auto.
Qed.

(* every result of a report carries the severity of a level under which its validation is listed, names a
   validation defined in the profile, and its focus node is a node of the input graph that is an instance of
   that validation's target class and fails its formula *)
Theorem results_traced g p c o : In o (results_of (validate g p c)) ->
  exists l d n, In (l, r_name (o_res o)) (p_listed p) /\ o_severity o = severity_iri l
                /\ find_def p (r_name (o_res o)) = Some d
                /\ In n g /\ r_focus (o_res o) = nid n /\ has_type n (v_class d) = true
                /\ (wf_form (v_form d) = true -> lsat g true (v_form d) (nid n) = false).
Proof.
  unfold validate. rewrite results_of_build. unfold build_results, engine_of. simpl. intros Hin.
  assert (H : exists l, In (o_res o) (level_results g p l) /\ o_severity o = severity_iri l).
  { apply in_app_or in Hin as [Hin|Hin]; [|apply in_app_or in Hin as [Hin|Hin]]; apply build_level_in in Hin as [H1 H2]; eauto. }
  destruct H as [l [Hr Hs]]. apply level_results_spec in Hr as [name [d [n [Hl [Hd [Hn [Hnm [Hv [Hf _]]]]]]]]].
  exists l, d, n. rewrite Hn, Hnm. repeat split; auto.
  - unfold validation_results, targets in Hv. apply filter_In in Hv as [Hv _]. apply filter_In in Hv. tauto.
  - unfold validation_results, targets in Hv. apply filter_In in Hv as [Hv _]. apply filter_In in Hv. tauto.
  - intros Hw. apply (results_exactly g (v_class d) (v_form d) Hw n) in Hv. tauto.
Qed.

Lemma unit_tree_wf : wf_et unit_tree = true.
Proof. vm_compute. reflexivity. Qed.

Theorem validate_ids_unique g p c : NoDup (report_ids (validate g p c)).
Proof.
  apply report_ids_unique. apply forallb_forall. intros r Hin. unfold all_results, engine_of in Hin. simpl in Hin.
  assert (H : exists l, In r (level_results g p l)).
  { apply in_app_or in Hin as [Hin|Hin]; [|apply in_app_or in Hin as [Hin|Hin]]; eauto. }
  destruct H as [l Hr]. apply level_results_spec in Hr as [? [? [? [_ [_ [_ [_ [_ [_ [_ Ht]]]]]]]]]]. rewrite Ht. apply unit_tree_wf.
Qed.
