(* C15, all rewritings together: any finite sequence of steps, each either a reordering (keys of any mapping, items of
   the free lists, at any depth: ParserCongruence.yrw) or a respelling of compact IRIs (YamlRespell.respell_doc_b),
   leaves the verdict unchanged. *)
From Coq Require Import Relations.
From ACV Require Import Base.Strs Model.Graph Model.Rules Model.Report Model.Engine Model.Yaml Model.ProfileParser Model.YamlRewrite Model.YamlRespell.
From ACV Require Import Proofs.ParserCongruence Proofs.RespellProofs.
Local Open Scope list_scope.

(* the two profiles report the same (level, validation, focus) triples, or neither is a profile the model accepts *)
Definition same_verdict (defaults : list (string * string)) (g : graph) (doc doc' : ynode) : Prop :=
  match verdict_keys defaults doc g, verdict_keys defaults doc' g with
  | POk v, POk v' => forall x, In x v <-> In x v'
  | POk _, _ | _, POk _ => False
  | _, _ => True
  end.

Lemma same_verdict_refl defaults g doc : same_verdict defaults g doc doc.
Proof. unfold same_verdict. destruct (verdict_keys defaults doc g); auto. tauto. Qed.
Lemma same_verdict_trans defaults g a b c : same_verdict defaults g a b -> same_verdict defaults g b c -> same_verdict defaults g a c.
Proof.
  unfold same_verdict. destruct (verdict_keys defaults a g), (verdict_keys defaults b g), (verdict_keys defaults c g); try tauto.
  intros H1 H2 z. rewrite H1. apply H2.
Qed.

Inductive step (defaults : list (string * string)) : ynode -> ynode -> Prop :=
| step_reorder doc doc' : yrw doc doc' -> step defaults doc doc'
| step_respell doc doc' : respell_doc_b defaults doc doc' = true -> step defaults doc doc'.

Lemma step_same_verdict defaults g doc doc' : step defaults doc doc' -> same_verdict defaults g doc doc'.
Proof.
  intros [a b H|a b H]; unfold same_verdict.
  - pose proof (verdict_congruence defaults a b g H) as R. unfold verdict_keys.
    destruct (verdict defaults a g) as [v| |], (verdict defaults b g) as [v'| |]; simpl in *; try contradiction; auto.
    intros z. rewrite !in_map_iff. split; intros [y [E Hy]]; exists y; (split; [assumption|]); now apply R.
  - rewrite (respell_same_verdict defaults a b g H). destruct (verdict_keys defaults b g); auto. tauto.
Qed.

Theorem rewritings_same_verdict : forall defaults g doc doc', clos_refl_trans ynode (step defaults) doc doc' -> same_verdict defaults g doc doc'.
Proof.
  intros defaults g doc doc' H. induction H as [a b H|a|a b c H1 IH1 H2 IH2].
  - now apply step_same_verdict.
  - apply same_verdict_refl.
  - eapply same_verdict_trans; eauto.
Qed.
