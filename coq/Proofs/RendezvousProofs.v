From ACV Require Import Base.Strs Model.Rendezvous.
Local Open Scope list_scope.

Section Proofs.
Variables E L : Type.
Variable E_eqb : E -> E -> bool.
Hypothesis E_eqb_spec : forall a b, E_eqb a b = true <-> a = b.
Notation pstep := (pstep E L).

(* a listener that takes every event: the call runs to its end, every work step done in order, every event taken in order -
   nothing lost, nothing reordered, however long the listener takes over each event (time is not part of the model: the
   call simply waits inside the send) *)
Theorem always_runs_to_the_end : forall (prog : list pstep) d t,
  run always prog d t = {| todo := []; did := d ++ works prog; taken := t ++ sends prog |}.
Proof.
  induction prog as [|s prog IH]; intros d t; cbn [run works sends flat_map]; [now rewrite !app_nil_r|].
  destruct s as [l|e]; cbn [always app]; rewrite IH; cbn [works sends]; now rewrite <- !app_assoc.
Qed.

(* whatever the policy: what was taken is a prefix of the program's sends, what was done is the work before the point reached,
   and the rest of the program is untouched *)
Theorem run_is_a_cut : forall pol (prog : list pstep) d t,
  exists pre, prog = pre ++ todo (run pol prog d t)
    /\ did (run pol prog d t) = d ++ works pre /\ taken (run pol prog d t) = t ++ sends pre.
Proof.
  intros pol. induction prog as [|s prog IH]; intros d t; cbn [run].
  - exists []. cbn. now rewrite !app_nil_r.
  - destruct s as [l|e].
    + destruct (IH (d ++ [l]) t) as [pre [H1 [H2 H3]]]. exists (PWork l :: pre). cbn [app works sends flat_map].
      rewrite H2, H3, <- app_assoc. split; [now rewrite <- H1|split; reflexivity].
    + destruct (pol t) eqn:Hp.
      * destruct (IH d (t ++ [e])) as [pre [H1 [H2 H3]]]. exists (PSend e :: pre). cbn [app works sends flat_map].
        rewrite H2, H3, <- app_assoc. split; [now rewrite <- H1|split; reflexivity].
      * exists []. cbn. now rewrite !app_nil_r.
Qed.

(* when the run stops short, it stops INSIDE A SEND (never in the middle of work), and that send is one the policy refused *)
Theorem stops_only_inside_a_send : forall pol (prog : list pstep) d t,
  todo (run pol prog d t) = [] \/ exists e r, todo (run pol prog d t) = PSend e :: r /\ pol (taken (run pol prog d t)) = false.
Proof.
  intros pol. induction prog as [|s prog IH]; intros d t; cbn [run]; [now left|].
  destruct s as [l|e]; [apply IH|]. destruct (pol t) eqn:Hp; [apply IH|]. right. exists e, prog. cbn. split; [reflexivity|exact Hp].
Qed.

Lemma last_is_snoc (w e : E) t : last_is E_eqb w (t ++ [e]) = E_eqb e w.
Proof. unfold last_is. now rewrite rev_unit. Qed.

(* no send of [pre] is w, except possibly ... : formulated as "w is not among the sends of pre" *)
Definition not_sent (w : E) (p : list pstep) : Prop := forall e, In e (sends p) -> E_eqb e w = false.

Lemma stop_after_passes : forall w (pre : list pstep) rest d t,
  last_is E_eqb w t = false -> not_sent w pre ->
  run (stop_after E_eqb w) (pre ++ rest) d t = run (stop_after E_eqb w) rest (d ++ works pre) (t ++ sends pre)
  /\ last_is E_eqb w (t ++ sends pre) = false.
Proof.
  intros w. induction pre as [|s pre IH]; intros rest d t Hl Hn; cbn [app run works sends flat_map].
  - rewrite !app_nil_r. split; [reflexivity|exact Hl].
  - destruct s as [l|e].
    + destruct (IH rest (d ++ [l]) t Hl) as [H1 H2].
      { intros e He. apply Hn. exact He. }
      cbn [app]. rewrite H1, <- app_assoc. split; [reflexivity|exact H2].
    + unfold stop_after at 1. rewrite Hl. cbn [negb].
      assert (He : E_eqb e w = false) by (apply Hn; cbn [sends flat_map app]; now left).
      destruct (IH rest d (t ++ [e])) as [H1 H2].
      { now rewrite last_is_snoc. }
      { intros e' He'. apply Hn. cbn [sends flat_map app]. now right. }
      cbn [app]. rewrite H1, <- !app_assoc. split; [reflexivity|]. now rewrite <- app_assoc in H2.
Qed.

(* once the last event taken is w, the call goes on through work and stays inside the next send *)
Lemma stop_holds_through_work : forall w x (mid post : list pstep) d t, sends mid = [] -> last_is E_eqb w t = true ->
  run (stop_after E_eqb w) (mid ++ PSend x :: post) d t = {| todo := PSend x :: post; did := d ++ works mid; taken := t |}.
Proof.
  intros w x mid post d t Hm Hw. revert d. induction mid as [|s mid IH]; intros d.
  - cbn [app run]. unfold stop_after. rewrite Hw. cbn [negb works flat_map]. now rewrite app_nil_r.
  - destruct s as [l|e]; [|cbn in Hm; discriminate]. cbn [app run works flat_map]. rewrite IH by exact Hm.
    now rewrite <- app_assoc.
Qed.

(* THE PARKING POINT.  The program is  pre ; send w ; mid ; send x ; post  where w is sent nowhere in pre and mid has no send.
   A listener that stops taking events after w leaves the call inside the send of x: all the work of pre and mid is done,
   none of post; w is the last event taken. *)
Theorem parked_inside_the_next_send : forall w x (pre mid post : list pstep) d t,
  last_is E_eqb w t = false -> not_sent w pre -> sends mid = [] ->
  run (stop_after E_eqb w) (pre ++ PSend w :: mid ++ PSend x :: post) d t
  = {| todo := PSend x :: post; did := d ++ works pre ++ works mid; taken := t ++ sends pre ++ [w] |}.
Proof.
  intros w x pre mid post d t Hl Hn Hm.
  destruct (stop_after_passes w pre (PSend w :: mid ++ PSend x :: post) d t Hl Hn) as [H1 H2]. rewrite H1. clear H1.
  cbn [run]. unfold stop_after at 1. rewrite H2. cbn [negb].
  rewrite stop_holds_through_work; [|exact Hm|rewrite last_is_snoc; apply E_eqb_spec; reflexivity].
  now rewrite <- !app_assoc.
Qed.

(* a listener that takes nothing: the call stands inside its FIRST send, with the work before it done *)
Theorem parked_inside_the_first_send : forall x (pre post : list pstep) d t, sends pre = [] ->
  run take_none (pre ++ PSend x :: post) d t = {| todo := PSend x :: post; did := d ++ works pre; taken := t |}.
Proof.
  intros x pre post d t. revert d. induction pre as [|s pre IH]; intros d Hs.
  - cbn. now rewrite app_nil_r.
  - destruct s as [l|e]; [|cbn in Hs; discriminate]. cbn [app run works flat_map]. rewrite IH by exact Hs. now rewrite <- app_assoc.
Qed.

(* released (the listener takes everything from then on), the call finishes the rest in order: together with the cut above,
   the whole execution does every work step once, in program order, and the listener sees every event once, in program order *)
Theorem parked_then_released : forall pol (prog : list pstep),
  let c := run pol prog [] [] in
  did (run always (todo c) (did c) (taken c)) = works prog /\ taken (run always (todo c) (did c) (taken c)) = sends prog.
Proof.
  intros pol prog c. destruct (run_is_a_cut pol prog [] []) as [pre [H1 [H2 H3]]]. fold c in H1, H2, H3.
  rewrite always_runs_to_the_end. cbn [did taken]. rewrite H2, H3. cbn [app].
  pose proof (f_equal (@works E L) H1) as Hw. pose proof (f_equal (@sends E L) H1) as Hs.
  unfold works in Hw. unfold sends in Hs. rewrite flat_map_app in Hw, Hs. unfold works, sends. split; symmetry; assumption.
Qed.
End Proofs.

(* ------------------------------------------------------------------ the pipeline's own events *)
From ACV Require Import Model.Pipeline.

Lemma stage_eqb_spec a b : stage_eqb a b = true <-> a = b.
Proof. split; [destruct a, b; cbn; intros H; try reflexivity; discriminate|intros ->; destruct b; reflexivity]. Qed.
Lemma ev_eqb_spec a b : ev_eqb a b = true <-> a = b.
Proof.
  split.
  - destruct a as [x|x], b as [y|y]; cbn; intros H; try discriminate; apply stage_eqb_spec in H; now subst.
  - intros ->. destruct b as [y|y]; cbn; now apply stage_eqb_spec.
Qed.

(* the successful flow of a validation from the profile text: the events in order, one unit of work inside every stage *)
Definition flow_of (stages : list stage) : list (Rendezvous.pstep ev stage) :=
  flat_map (fun s => [Rendezvous.PSend (Start s); Rendezvous.PWork s; Rendezvous.PSend (Done s)]) stages.
Definition profile_stages := [ProfileParsing; RegoGeneration; RegoCompilation].
Definition data_stages := [InputDataParsing; InputDataNormalization; OpaValidation; BuildReport].
Definition validate_flow : list (Rendezvous.pstep ev stage) := flow_of (profile_stages ++ data_stages).
Definition compiled_flow : list (Rendezvous.pstep ev stage) := flow_of data_stages.

(* the flows send exactly the events of the pipeline model, in its order *)
Lemma validate_flow_sends : Rendezvous.sends validate_flow = profile_order ++ data_order.
Proof. reflexivity. Qed.

(* the parking points the runs use, computed: a listener that stops after "ProfileParsing done" leaves a validation inside the
   send of "RegoGeneration start" with the profile parsed and nothing generated (the cold concurrent starts and the steered
   generations of C06 / C10); one that takes nothing leaves a validation with a compiled profile inside the send of
   "InputDataParsing start"; one that stops after "RegoCompilation done" does the same to a validation from text (C04) *)
Example parked_before_generation :
  Rendezvous.run (Rendezvous.stop_after ev_eqb (Done ProfileParsing)) validate_flow [] []
  = {| Rendezvous.todo := skipn 3 validate_flow; Rendezvous.did := [ProfileParsing]; Rendezvous.taken := [Start ProfileParsing; Done ProfileParsing] |}.
Proof. reflexivity. Qed.
Example parked_before_decoding_compiled :
  Rendezvous.run Rendezvous.take_none compiled_flow [] [] = {| Rendezvous.todo := compiled_flow; Rendezvous.did := []; Rendezvous.taken := [] |}.
Proof. reflexivity. Qed.
Example parked_before_decoding_text :
  Rendezvous.did (Rendezvous.run (Rendezvous.stop_after ev_eqb (Done RegoCompilation)) validate_flow [] []) = profile_stages
  /\ Rendezvous.todo (Rendezvous.run (Rendezvous.stop_after ev_eqb (Done RegoCompilation)) validate_flow [] []) = compiled_flow.
Proof. split; reflexivity. Qed.
