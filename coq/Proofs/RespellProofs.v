(* C15, prefixes: two profile trees accepted by Model/YamlRespell.respell_doc_b (same shape, compact IRIs spelled
   differently but expanding alike under their own prefix tables) get the same verdict on every graph. *)
From ACV Require Import Base.Strs Model.Graph Model.PathGrammar Model.PathSem Model.Dnf Model.Rules Model.Report Model.Engine Model.Yaml Model.ProfileParser Model.YamlRespell.
From ACV Require Import Proofs.PathSemProofs Proofs.ParserCongruence Proofs.ParserMessages.
Local Open Scope list_scope.

(* ------------------------------------------------------------------ the equality tests *)
Lemma ynode_eqb_sized : forall n a b, ysize a <= n -> ynode_eqb a b = true -> a = b.
Proof.
  induction n as [|n IH]; intros a b Hs H.
  - destruct a; simpl in Hs; lia.
  - destruct a as [t v|l|l], b as [t' v'|l'|l']; try discriminate.
    + simpl in H. apply andb_prop in H as [H1 H2]. apply String.eqb_eq in H1, H2. now subst.
    + cbn [ynode_eqb] in H. f_equal. change (S (esize l) <= S n) in Hs. assert (Hs' : esize l <= n) by lia. clear Hs.
      revert l' H. induction l as [|[k v] r IHr]; intros [|[k' v'] r'] H; try discriminate; [reflexivity|].
      apply andb_prop in H as [H H3]. apply andb_prop in H as [H1 H2]. apply String.eqb_eq in H1. subst k'. simpl in Hs'. fold esize in Hs'.
      rewrite (IH v v'); [|lia|assumption]. f_equal. apply IHr; [lia|assumption].
    + cbn [ynode_eqb] in H. f_equal. change (S (isize l) <= S n) in Hs. assert (Hs' : isize l <= n) by lia. clear Hs.
      revert l' H. induction l as [|v r IHr]; intros [|v' r'] H; try discriminate; [reflexivity|].
      apply andb_prop in H as [H1 H2]. simpl in Hs'. fold isize in Hs'.
      rewrite (IH v v'); [|lia|assumption]. f_equal. apply IHr; [lia|assumption].
Qed.
Lemma ynode_eqb_eq a b : ynode_eqb a b = true -> a = b.
Proof. apply (ynode_eqb_sized (ysize a)). lia. Qed.

Lemma path_eqb_eq : forall p q, path_eqb p q = true -> p = q.
Proof.
  induction p as [i a b|l IH|l IH] using path_ind2; intros [i' a' b'|l'|l'] H; try discriminate.
  - simpl in H. apply andb_prop in H as [H H3]. apply andb_prop in H as [H1 H2].
    apply String.eqb_eq in H1. apply Bool.eqb_prop in H2, H3. now subst.
  - cbn [path_eqb] in H. f_equal. revert l' H. induction IH as [|x r Hx Hr IHr]; intros [|y r'] H; try discriminate; [reflexivity|].
    apply andb_prop in H as [H1 H2]. rewrite (Hx y H1). f_equal. now apply IHr.
  - cbn [path_eqb] in H. f_equal. revert l' H. induction IH as [|x r Hx Hr IHr]; intros [|y r'] H; try discriminate; [reflexivity|].
    apply andb_prop in H as [H1 H2]. rewrite (Hx y H1). f_equal. now apply IHr.
Qed.
Lemma ppp_eqb_eq a b : ppp_eqb a b = true -> a = b.
Proof. destruct a, b; simpl; try discriminate; auto. intros H. now rewrite (path_eqb_eq _ _ H). Qed.

(* ------------------------------------------------------------------ related mappings: what a lookup finds *)
Lemma entries_assoc value l l' : entries_b value l l' = true ->
  forall k, match assoc k l, assoc k l' with
            | Some v, Some v' => value k v v' = true
            | None, None => True
            | _, _ => False
            end.
Proof.
  revert l'. induction l as [|[k0 v] r IH]; intros [|[k0' v'] r'] H k; simpl in H; try discriminate; [exact I|].
  apply andb_prop in H as [H H3]. apply andb_prop in H as [H1 H2]. apply String.eqb_eq in H1. subst k0'. simpl.
  destruct (String.eqb k0 k) eqn:E; [|now apply IH]. apply String.eqb_eq in E. now subst.
Qed.

Section TwoTables.
Variables ctx ctx' : list (string * string).

Lemma same_path_text_eq s s' : same_path_text ctx ctx' s s' = true -> parse_property_path ctx s = parse_property_path ctx' s'.
Proof. apply ppp_eqb_eq. Qed.
Lemma same_iri_text_eq s s' : same_iri_text ctx ctx' s s' = true -> expand_compact ctx s = expand_compact ctx' s'.
Proof.
  unfold same_iri_text. destruct (expand_compact ctx s), (expand_compact ctx' s'); try discriminate; auto.
  intros H. apply String.eqb_eq in H. now subst.
Qed.

(* the value relation of each kind of mapping, as a function of the key *)
Definition value_of (p : pos) (n : nat) (k : string) (v v' : ynode) : bool :=
  match p with
  | PExpr =>
      if String.eqb k "propertyConstraints" then
        match v, v' with
        | YMap es, YMap es' =>
            forall2b (fun e e' : string * ynode => same_path_text ctx ctx' (fst e) (fst e') && respell_b ctx ctx' n PConstraints (snd e) (snd e')) es es'
        | _, _ => ynode_eqb v v'
        end
      else if String.eqb k "and" || String.eqb k "or" then
        match v, v' with YSeq a, YSeq b => forall2b (respell_b ctx ctx' n PExpr) a b | _, _ => ynode_eqb v v' end
      else if sub_expr_key k then respell_b ctx ctx' n PExpr v v'
      else if String.eqb k "targetClass" then iri_value ctx ctx' v v'
      else if String.eqb k "message" then true
      else ynode_eqb v v'
  | PConstraints =>
      if cmp_key k then path_value ctx ctx' v v'
      else if String.eqb k "datatype" then iri_value ctx ctx' v v'
      else if String.eqb k "nested" then respell_b ctx ctx' n PExpr v v'
      else if String.eqb k "atLeast" || String.eqb k "atMost" then respell_b ctx ctx' n PQualified v v'
      else ynode_eqb v v'
  | PQualified =>
      if String.eqb k "validation" then respell_b ctx ctx' n PExpr v v' else ynode_eqb v v'
  end.

Lemma respell_unfold n p y y' :
  respell_b ctx ctx' (S n) p y y' =
  match y, y' with
  | YMap l, YMap l' => entries_b (value_of p n) l l'
  | _, _ => ynode_eqb y y'
  end.
Proof. destruct p; reflexivity. Qed.

(* related nodes: two mappings, or the same node *)
Lemma respell_kind fr p y y' : respell_b ctx ctx' fr p y y' = true ->
  (exists l l', y = YMap l /\ y' = YMap l') \/ (y = y' /\ forall l, y <> YMap l).
Proof.
  destruct fr as [|n]; [discriminate|]. rewrite respell_unfold.
  destruct y as [t v|l|l], y' as [t' v'|l'|l']; intros H; try discriminate; try (left; eauto; fail);
    right; (split; [now apply ynode_eqb_eq|intros; discriminate]).
Qed.

(* lookups in two related mappings *)
Lemma respell_lookups n p l l' : respell_b ctx ctx' (S n) p (YMap l) (YMap l') = true ->
  forall k, match yget k (YMap l), yget k (YMap l') with
            | Some v, Some v' => value_of p n k v v' = true
            | None, None => True
            | _, _ => False
            end.
Proof. rewrite respell_unfold. intros H k. simpl. now apply entries_assoc. Qed.
End TwoTables.

(* ------------------------------------------------------------------ the parser on two related trees *)
Section Parser.
Variables ctx ctx' : list (string * string).
Variables rec rec' : ynode -> presult form.
Hypothesis Hrec : forall fr v v', respell_b ctx ctx' fr PExpr v v' = true -> rec v = rec' v'.

Section Constraints.
Variables (m : nat) (l l' : list (string * ynode)).
Hypothesis Hc : respell_b ctx ctx' (S m) PConstraints (YMap l) (YMap l') = true.
Let c := YMap l.
Let c' := YMap l'.

(* a key whose value must be the same node on both sides *)
Lemma look_same k : value_of ctx ctx' PConstraints m k = ynode_eqb -> yget k c = yget k c'.
Proof.
  intros Hk. pose proof (respell_lookups ctx ctx' m PConstraints l l' Hc k) as H. fold c c' in H.
  destruct (yget k c), (yget k c'); try contradiction; [|reflexivity]. rewrite Hk in H. now rewrite (ynode_eqb_eq _ _ H).
Qed.
Lemma present_any k : present k c = present k c'.
Proof.
  unfold present. pose proof (respell_lookups ctx ctx' m PConstraints l l' Hc k) as H. fold c c' in H.
  destruct (yget k c), (yget k c'); try contradiction; reflexivity.
Qed.

Lemma r_unsupported : pc_unsupported c = pc_unsupported c'.
Proof. unfold pc_unsupported. now rewrite !present_any. Qed.
Lemma r_counts p : pc_counts p c = pc_counts p c'.
Proof. unfold pc_counts, count_atom. now rewrite !look_same by reflexivity. Qed.
Lemma r_pattern p : pc_pattern p c = pc_pattern p c'.
Proof. unfold pc_pattern. now rewrite look_same by reflexivity. Qed.
Lemma r_scalar_set k mk : value_of ctx ctx' PConstraints m k = ynode_eqb -> pc_scalar_set c k mk = pc_scalar_set c' k mk.
Proof. intros Hk. unfold pc_scalar_set. now rewrite look_same by assumption. Qed.
Lemma r_num p k o : value_of ctx ctx' PConstraints m k = ynode_eqb -> pc_num p c k o = pc_num p c' k o.
Proof. intros Hk. unfold pc_num. now rewrite look_same by assumption. Qed.

Lemma r_cmp p k o : cmp_key k = true -> pc_cmp ctx p c k o = pc_cmp ctx' p c' k o.
Proof.
  intros Hk. unfold pc_cmp. pose proof (respell_lookups ctx ctx' m PConstraints l l' Hc k) as H. fold c c' in H.
  destruct (yget k c) as [v|], (yget k c') as [v'|]; try contradiction; [|reflexivity].
  unfold value_of in H. rewrite Hk in H. unfold path_value in H.
  destruct (y_string v) as [s|], (y_string v') as [s'|]; try discriminate; [|reflexivity].
  now rewrite (same_path_text_eq _ _ _ _ H).
Qed.

Lemma r_datatype p : pc_datatype ctx p c = pc_datatype ctx' p c'.
Proof.
  unfold pc_datatype. pose proof (respell_lookups ctx ctx' m PConstraints l l' Hc "datatype"%string) as H. fold c c' in H.
  destruct (yget "datatype" c) as [v|], (yget "datatype" c') as [v'|]; try contradiction; [|reflexivity].
  cbn in H. unfold iri_value in H.
  destruct (y_string v) as [s|], (y_string v') as [s'|]; try discriminate; [|reflexivity].
  now rewrite (same_iri_text_eq _ _ _ _ H).
Qed.

Lemma r_nested p : pc_nested rec p c = pc_nested rec' p c'.
Proof.
  unfold pc_nested. pose proof (respell_lookups ctx ctx' m PConstraints l l' Hc "nested"%string) as H. fold c c' in H.
  destruct (yget "nested" c) as [v|], (yget "nested" c') as [v'|]; try contradiction; [|reflexivity].
  cbn in H. destruct (respell_kind _ _ _ _ _ _ H) as [[a [b [-> ->]]]|[-> Hn]].
  - now rewrite (Hrec _ _ _ H).
  - destruct v'; try reflexivity. exfalso. now apply (Hn entries).
Qed.

Lemma r_qualified p k mk : (String.eqb k "atLeast" || String.eqb k "atMost")%bool = true -> cmp_key k = false ->
  String.eqb k "datatype" = false -> String.eqb k "nested" = false ->
  pc_qualified rec p c k mk = pc_qualified rec' p c' k mk.
Proof.
  intros Hk H1 H2 H3. unfold pc_qualified. pose proof (respell_lookups ctx ctx' m PConstraints l l' Hc k) as H. fold c c' in H.
  destruct (yget k c) as [qn|], (yget k c') as [qn'|]; try contradiction; [|reflexivity].
  unfold value_of in H. rewrite H1, H2, H3, Hk in H.
  destruct (respell_kind _ _ _ _ _ _ H) as [[a [b [-> ->]]]|[-> Hn]].
  2:{ destruct qn'; try reflexivity. exfalso. now apply (Hn entries). }
  destruct m as [|m']; [discriminate|].
  pose proof (respell_lookups ctx ctx' m' PQualified a b H) as L.
  pose proof (L "count"%string) as Lc. destruct (yget "count" (YMap a)) as [cn|], (yget "count" (YMap b)) as [cn'|]; try contradiction; [|reflexivity].
  cbn in Lc. rewrite (ynode_eqb_eq _ _ Lc). destruct (y_nat cn'); [|reflexivity].
  pose proof (L "validation"%string) as Lv. destruct (yget "validation" (YMap a)) as [v|], (yget "validation" (YMap b)) as [v'|]; try contradiction; [|reflexivity].
  cbn in Lv. destruct (respell_kind _ _ _ _ _ _ Lv) as [[x [y [-> ->]]]|[-> Hn]].
  - now rewrite (Hrec _ _ _ Lv).
  - destruct v'; try reflexivity. exfalso. now apply (Hn entries).
Qed.
End Constraints.

Lemma parse_pc_eq fr k k' c c' : same_path_text ctx ctx' k k' = true -> respell_b ctx ctx' fr PConstraints c c' = true ->
  parse_pc ctx rec (k, c) = parse_pc ctx' rec' (k', c').
Proof.
  intros Hk Hc. unfold parse_pc. rewrite (same_path_text_eq _ _ _ _ Hk). destruct (parse_property_path ctx' k') as [p| |]; try reflexivity.
  cbn [pbind]. destruct (respell_kind _ _ _ _ _ _ Hc) as [[l [l' [-> ->]]]|[-> Hn]].
  - destruct fr as [|m]; [discriminate|].
    rewrite (r_unsupported m l l' Hc). destruct (pc_unsupported (YMap l')); [reflexivity|].
    rewrite (r_pattern m l l' Hc), (r_counts m l l' Hc).
    rewrite !(r_scalar_set m l l' Hc) by reflexivity.
    rewrite !(r_cmp m l l' Hc) by reflexivity.
    rewrite !(r_qualified m l l' Hc) by reflexivity.
    rewrite !(r_num m l l' Hc) by reflexivity.
    rewrite (r_datatype m l l' Hc), (r_nested m l l' Hc). reflexivity.
  - destruct c'; try reflexivity. exfalso. now apply (Hn entries).
Qed.

Lemma pcs_eq fr es es' :
  forall2b (fun e e' : string * ynode => same_path_text ctx ctx' (fst e) (fst e') && respell_b ctx ctx' fr PConstraints (snd e) (snd e')) es es' = true ->
  map_p (parse_pc ctx rec) es = map_p (parse_pc ctx' rec') es'.
Proof.
  revert es'. induction es as [|[k c] r IH]; intros [|[k' c'] r'] H; simpl in H; try discriminate; [reflexivity|].
  apply andb_prop in H as [H H3]. apply andb_prop in H as [H1 H2]. cbn [map_p]. simpl in H1, H2.
  now rewrite (parse_pc_eq fr k k' c c' H1 H2), (IH r' H3).
Qed.

Lemma operands_eq fr a b : forall2b (respell_b ctx ctx' fr PExpr) a b = true -> operands rec a = operands rec' b.
Proof.
  unfold operands. revert b. induction a as [|x r IH]; intros [|y r'] H; simpl in H; try discriminate; [reflexivity|].
  apply andb_prop in H as [H1 H2]. cbn [map_p]. rewrite (IH r' H2).
  destruct (respell_kind _ _ _ _ _ _ H1) as [[l [l' [-> ->]]]|[-> Hn]]; [now rewrite (Hrec _ _ _ H1)|].
  destruct y; try reflexivity. exfalso. now apply (Hn entries).
Qed.

Lemma expr_body_eq fr y y' : respell_b ctx ctx' fr PExpr y y' = true -> expr_body ctx rec y = expr_body ctx' rec' y'.
Proof.
  intros H. destruct (respell_kind _ _ _ _ _ _ H) as [[l [l' [-> ->]]]|[-> Hn]].
  2:{ (* not a mapping: every lookup fails, the context is never used *)
      unfold expr_body, present. destruct y' as [t v| |]; try reflexivity. exfalso. now apply (Hn entries). }
  destruct fr as [|n]; [discriminate|].
  pose proof (respell_lookups ctx ctx' n PExpr l l' H) as L. unfold expr_body.
  pose proof (L "propertyConstraints"%string) as Hpc.
  destruct (yget "propertyConstraints" (YMap l)) as [pc|], (yget "propertyConstraints" (YMap l')) as [pc'|]; try contradiction.
  { cbn in Hpc. destruct pc as [t v|es|s], pc' as [t' v'|es'|s']; try discriminate; try reflexivity.
    now rewrite (pcs_eq n es es' Hpc). }
  assert (Hp : forall k, present k (YMap l) = present k (YMap l')).
  { intros k. unfold present. specialize (L k). destruct (yget k (YMap l)), (yget k (YMap l')); try contradiction; reflexivity. }
  rewrite !Hp. destruct (present "rego" (YMap l') || present "regoModule" (YMap l')); [reflexivity|].
  pose proof (L "and"%string) as Hand.
  destruct (yget "and" (YMap l)) as [a|], (yget "and" (YMap l')) as [a'|]; try contradiction.
  { cbn in Hand. destruct a as [t v|es|s], a' as [t' v'|es'|s']; try discriminate; try reflexivity.
    now rewrite (operands_eq n s s' Hand). }
  pose proof (L "or"%string) as Hor.
  destruct (yget "or" (YMap l)) as [a|], (yget "or" (YMap l')) as [a'|]; try contradiction.
  { cbn in Hor. destruct a as [t v|es|s], a' as [t' v'|es'|s']; try discriminate; try reflexivity.
    now rewrite (operands_eq n s s' Hor). }
  pose proof (L "not"%string) as Hnot.
  destruct (yget "not" (YMap l)) as [a|], (yget "not" (YMap l')) as [a'|]; try contradiction.
  { cbn in Hnot. destruct (respell_kind _ _ _ _ _ _ Hnot) as [[x [y [-> ->]]]|[-> Hn]]; [now rewrite (Hrec _ _ _ Hnot)|].
    destruct a'; try reflexivity. exfalso. now apply (Hn entries). }
  pose proof (L "if"%string) as Hif.
  destruct (yget "if" (YMap l)) as [i|], (yget "if" (YMap l')) as [i'|]; try contradiction; [|reflexivity].
  pose proof (L "then"%string) as Hthen.
  destruct (yget "then" (YMap l)) as [t|], (yget "then" (YMap l')) as [t'|]; try contradiction; [|reflexivity].
  cbn in Hif, Hthen. rewrite (Hrec _ _ _ Hif), (Hrec _ _ _ Hthen).
  pose proof (L "else"%string) as Helse.
  destruct (yget "else" (YMap l)) as [e|], (yget "else" (YMap l')) as [e'|]; try contradiction; [|reflexivity].
  cbn in Helse. now rewrite (Hrec _ _ _ Helse).
Qed.
End Parser.

Theorem respell_parse_expr : forall ctx ctx' fp fr y y', respell_b ctx ctx' fr PExpr y y' = true ->
  parse_expr ctx fp y = parse_expr ctx' fp y'.
Proof.
  intros ctx ctx'. induction fp as [|fp IH]; intros fr y y' H; [reflexivity|].
  cbn [parse_expr]. apply (expr_body_eq ctx ctx' (parse_expr ctx fp) (parse_expr ctx' fp) IH fr y y' H).
Qed.

(* ------------------------------------------------------------------ the document *)
Definition def_same (d d' : vdef) : Prop := v_name d = v_name d' /\ v_class d = v_class d' /\ v_form d = v_form d'.

(* same outcome kind; successful outcomes related *)
Definition rel_strict {X} (R : X -> X -> Prop) (a b : presult X) : Prop :=
  match a, b with POk x, POk y => R x y | PError, PError => True | PUnsupported, PUnsupported => True | _, _ => False end.
Lemma map_p_strict {X Y} (RX : X -> X -> Prop) (RY : Y -> Y -> Prop) (f f' : X -> presult Y) l l' :
  Forall2 RX l l' -> (forall x x', RX x x' -> rel_strict RY (f x) (f' x')) -> rel_strict (Forall2 RY) (map_p f l) (map_p f' l').
Proof.
  intros H Hf. induction H as [|x x' l l' Hx Hl IH]; simpl; [constructor|].
  pose proof (Hf x x' Hx) as R. destruct (f x), (f' x'); simpl in *; try contradiction; auto.
  destruct (map_p f l), (map_p f' l'); simpl in *; try contradiction; auto.
Qed.

Lemma parse_def_same ctx ctx' nm body body' :
  Nat.eqb (ysize body) (ysize body') = true -> respell_b ctx ctx' (S (ysize body)) PExpr body body' = true ->
  rel_strict def_same (parse_def ctx (nm, body)) (parse_def ctx' (nm, body')).
Proof.
  intros Hs H. apply Nat.eqb_eq in Hs. unfold parse_def. rewrite <- Hs.
  rewrite <- (respell_parse_expr ctx ctx' (ysize body) _ body body' H).
  destruct (respell_kind _ _ _ _ _ _ H) as [[l [l' [-> ->]]]|[-> Hn]].
  - pose proof (respell_lookups ctx ctx' _ PExpr l l' H "targetClass"%string) as Ht.
    destruct (yget "targetClass" (YMap l)) as [tc|], (yget "targetClass" (YMap l')) as [tc'|]; try contradiction; [|exact I].
    cbn in Ht. unfold iri_value in Ht. destruct (y_string tc) as [cls|], (y_string tc') as [cls'|]; try discriminate; try exact I.
    rewrite <- (same_iri_text_eq _ _ _ _ Ht). destruct (expand_compact ctx cls); [|exact I].
    destruct (parse_expr ctx (ysize (YMap l)) (YMap l)); simpl; auto. repeat split.
  - destruct body' as [t v| |]; try exact I. exfalso. now apply (Hn entries).
Qed.

Lemma forall2b_filter {X} (h h' : X -> bool) (R : X -> X -> bool) a b :
  (forall x x', R x x' = true -> h x = h' x') -> forall2b R a b = true -> forall2b R (filter h a) (filter h' b) = true.
Proof.
  intros Hh. revert b. induction a as [|x r IH]; intros [|y r'] H; simpl in H; try discriminate; [reflexivity|].
  apply andb_prop in H as [H1 H2]. simpl. rewrite (Hh x y H1). destruct (h' y); simpl; [rewrite H1; simpl|]; now apply IH.
Qed.
Lemma forall2b_Forall2 {X} (R : X -> X -> bool) a b : forall2b R a b = true -> Forall2 (fun x y => R x y = true) a b.
Proof. revert b. induction a as [|x r IH]; intros [|y r'] H; simpl in H; try discriminate; constructor; apply andb_prop in H as [H1 H2]; auto. Qed.

(* results of two profiles whose definitions differ in the message texts only *)
Definition key_of (r : result) : string * string := (r_name r, r_focus r).
Lemma existsb_keys x y : key_of x = key_of y -> forall r r', map key_of r = map key_of r' ->
  existsb (result_eqb x) r = existsb (result_eqb y) r'.
Proof.
  intros Hk. unfold key_of in Hk. injection Hk as Hn Hf.
  induction r as [|a r IHr]; intros [|b r'] Hr; simpl in Hr; try discriminate; [reflexivity|].
  injection Hr as Hn2 Hf2 Hr'. simpl. rewrite (IHr r' Hr'). unfold result_eqb.
  now rewrite Hn, Hf, Hn2, Hf2.
Qed.
Lemma dedup_keys (L L' : list result) : map key_of L = map key_of L' -> map key_of (dedup result_eqb L) = map key_of (dedup result_eqb L').
Proof.
  revert L'. induction L as [|x r IH]; intros [|y r'] H; simpl in H; try discriminate; [reflexivity|].
  injection H as Hn Hf Hr. assert (Hk : key_of x = key_of y) by (unfold key_of; now rewrite Hn, Hf).
  simpl. rewrite (existsb_keys x y Hk r r' Hr).
  destruct (existsb (result_eqb y) r'); simpl; [now apply IH|]. now rewrite Hk, (IH r' Hr).
Qed.

Lemma find_def_same defs defs' nm : Forall2 def_same defs defs' ->
  orel def_same (List.find (fun d => String.eqb (v_name d) nm) defs) (List.find (fun d => String.eqb (v_name d) nm) defs').
Proof.
  induction 1 as [|d d' a b Hd Hab IH]; simpl; [exact I|]. destruct Hd as [En Hd]. rewrite <- En.
  destruct (String.eqb (v_name d) nm); simpl; [repeat split; tauto|exact IH].
Qed.

Lemma level_results_keys g p p' l : p_listed p = p_listed p' -> Forall2 def_same (p_defs p) (p_defs p') ->
  map key_of (level_results g p l) = map key_of (level_results g p' l).
Proof.
  intros El Fd. rewrite !level_results_list. apply dedup_keys. unfold level_list. rewrite <- El. clear El.
  generalize (p_listed p) as L. induction L as [|ln r IH]; simpl; [reflexivity|]. rewrite !map_app, IH. f_equal.
  destruct (level_eqb l (fst ln)); [|reflexivity].
  pose proof (find_def_same (p_defs p) (p_defs p') (snd ln) Fd) as R. unfold find_def.
  destruct (List.find _ (p_defs p)) as [d|], (List.find _ (p_defs p')) as [d'|]; simpl in R; try contradiction; [|reflexivity].
  destruct R as [En [Ec Ef]]. rewrite <- Ec, <- Ef. rewrite !map_map. unfold key_of. simpl. now rewrite En.
Qed.

Lemma map_flat_map' {A B C} (f : B -> C) (h : A -> list B) l : map f (flat_map h l) = flat_map (fun x => map f (h x)) l.
Proof. induction l as [|x r IH]; simpl; [reflexivity|]. now rewrite map_app, IH. Qed.

(* C15: respelling the compact IRIs of a profile (renamed prefix, alias prefix, another prefix table) keeps the verdict *)
Theorem respell_same_verdict : forall defaults doc doc' g, respell_doc_b defaults doc doc' = true ->
  verdict_keys defaults doc g = verdict_keys defaults doc' g.
Proof.
  intros defaults doc doc' g H. unfold respell_doc_b in H.
  destruct doc as [t a|l|s], doc' as [t' a'|l'|s']; try discriminate.
  destruct (prefixes_of (YMap l)) as [pfx| |] eqn:Ep; try discriminate.
  destruct (prefixes_of (YMap l')) as [pfx'| |] eqn:Ep'; try discriminate.
  cbv zeta in H. set (ctx := context defaults pfx) in *. set (ctx' := context defaults pfx') in *.
  pose proof (entries_assoc _ l l' H) as L.
  unfold verdict_keys, verdict. rewrite !parse_profile_unfold. simpl yget.
  pose proof (L "profile"%string) as Hn. cbn in Hn.
  destruct (assoc "profile" l) as [n|], (assoc "profile" l') as [n'|]; try contradiction; [|reflexivity].
  rewrite (ynode_eqb_eq _ _ Hn). destruct (y_string n') as [name|]; [|reflexivity].
  assert (Hre : present "rego_extensions" (YMap l) = present "rego_extensions" (YMap l')).
  { unfold present. simpl. pose proof (L "rego_extensions"%string) as Hx. destruct (assoc "rego_extensions" l), (assoc "rego_extensions" l'); try contradiction; reflexivity. }
  rewrite Hre. destruct (present "rego_extensions" (YMap l')); [reflexivity|].
  rewrite Ep, Ep'. cbn [pbind]. cbv zeta. fold ctx ctx'.
  pose proof (L "validations"%string) as Hv. cbn in Hv.
  destruct (assoc "validations" l) as [vm|], (assoc "validations" l') as [vm'|]; try contradiction; [|reflexivity].
  assert (Hlist : listed_of (YMap l) = listed_of (YMap l')).
  { unfold listed_of, level_names. simpl.
    pose proof (L "violation"%string) as H1. pose proof (L "warning"%string) as H2. pose proof (L "info"%string) as H3. cbn in H1, H2, H3.
    destruct (assoc "violation" l), (assoc "violation" l'); try contradiction; try (rewrite (ynode_eqb_eq _ _ H1));
    destruct (assoc "warning" l), (assoc "warning" l'); try contradiction; try (rewrite (ynode_eqb_eq _ _ H2));
    destruct (assoc "info" l), (assoc "info" l'); try contradiction; try (rewrite (ynode_eqb_eq _ _ H3)); reflexivity. }
  destruct vm as [tv av|vs|sv], vm' as [tv' av'|vs'|sv']; try discriminate; try reflexivity.
  rewrite <- Hlist. set (listed := listed_of (YMap l)).
  set (h := fun kv : string * ynode => existsb (fun ln : level * string => String.eqb (snd ln) (fst kv)) listed).
  set (R := fun e e' : string * ynode => (String.eqb (fst e) (fst e') && Nat.eqb (ysize (snd e)) (ysize (snd e'))
                                           && respell_b ctx ctx' (S (ysize (snd e))) PExpr (snd e) (snd e'))%bool) in Hv.
  assert (Hh : forall x x', R x x' = true -> h x = h x').
  { intros x x' Hx. unfold R in Hx. apply andb_prop in Hx as [Hx _]. apply andb_prop in Hx as [Hx _]. apply String.eqb_eq in Hx. unfold h. now rewrite Hx. }
  pose proof (forall2b_Forall2 R _ _ (forall2b_filter h h R vs vs' Hh Hv)) as Fu.
  assert (Hf : forall x x', R x x' = true -> rel_strict def_same (parse_def ctx x) (parse_def ctx' x')).
  { intros [nm body] [nm' body'] Hx. unfold R in Hx. simpl in Hx. apply andb_prop in Hx as [Hx H3]. apply andb_prop in Hx as [H1 H2].
    apply String.eqb_eq in H1. subst nm'. now apply parse_def_same. }
  pose proof (map_p_strict (fun x y => R x y = true) def_same (parse_def ctx) (parse_def ctx') _ _ Fu Hf) as Rd.
  destruct (map_p (parse_def ctx) (filter h vs)) as [defs| |], (map_p (parse_def ctx') (filter h vs')) as [defs'| |]; simpl in Rd; try contradiction; try reflexivity.
  cbn [pbind p_defs].
  assert (Hw : forallb (fun d => wf_form (v_form d)) defs = forallb (fun d => wf_form (v_form d)) defs').
  { clear -Rd. induction Rd as [|d d' a b Hd Hab IH]; simpl; [reflexivity|]. destruct Hd as [_ [_ Ef]]. now rewrite Ef, IH. }
  rewrite Hw. destruct (forallb (fun d => wf_form (v_form d)) defs'); [|reflexivity]. f_equal.
  assert (Hnames : forall ln : level * string, existsb (fun d => String.eqb (v_name d) (snd ln)) defs = existsb (fun d => String.eqb (v_name d) (snd ln)) defs').
  { intros ln. clear -Rd. induction Rd as [|d d' a b Hd Hab IH]; simpl; [reflexivity|]. destruct Hd as [En _]. now rewrite En, IH. }
  rewrite (filter_ext_all _ _ listed Hnames).
  set (pl := filter (fun ln : level * string => existsb (fun d => String.eqb (v_name d) (snd ln)) defs') listed).
  rewrite !map_flat_map'.
  assert (G : forall lv : level,
     map (fun x : level * string * string * string => fst x) (map (fun r : result => (lv, r_name r, r_focus r, r_msg r)) (level_results g {| p_name := name; p_listed := pl; p_defs := defs |} lv))
   = map (fun x : level * string * string * string => fst x) (map (fun r : result => (lv, r_name r, r_focus r, r_msg r)) (level_results g {| p_name := name; p_listed := pl; p_defs := defs' |} lv))).
  { intros lv. rewrite !map_map. simpl.
    pose proof (level_results_keys g {| p_name := name; p_listed := pl; p_defs := defs |} {| p_name := name; p_listed := pl; p_defs := defs' |} lv eq_refl Rd) as K.
    revert K. generalize (level_results g {| p_name := name; p_listed := pl; p_defs := defs |} lv) (level_results g {| p_name := name; p_listed := pl; p_defs := defs' |} lv).
    induction l0 as [|x r IH]; intros [|y r'] K; simpl in K; try discriminate; [reflexivity|].
    inversion K as [[Kx Kr]]. unfold key_of in Kx. inversion Kx. simpl. f_equal; [congruence|now apply IH]. }
  simpl. now rewrite !G.
Qed.

(* the test accepts really different spellings: `ex` renamed to `e2`, `zz` kept but also bound as `alias`, the alias used in
   one place, the placeholders of a message respelled; and rejects a spelling that expands elsewhere *)
Local Open Scope string_scope.
Definition rs_doc (ex zz zz2 : string) (extra : list (string * ynode)) : ynode :=
  YMap [("profile", ex_S "P");
        ("prefixes", YMap ([(ex, ex_S "http://example.org/ns#"); ("zz", ex_S "http://example.org/zz#")] ++ extra));
        ("violation", YSeq [ex_S "a"; ex_S "b"]);
        ("validations", YMap [
           ("a", YMap [("targetClass", ex_S (ex ++ ".T")); ("message", ex_S ("m {{" ++ ex ++ ".p}}"));
                       ("or", YSeq [ex_pc (ex ++ ".p") "minCount" "1"; ex_pc (zz ++ ".q / " ++ ex ++ ".p") "minCount" "1"])]);
           ("b", YMap [("targetClass", ex_S (ex ++ ".T"));
                       ("propertyConstraints", YMap [(ex ++ ".p", YMap [("minCount", ex_I "1"); ("lessThanProperty", ex_S (zz2 ++ ".q"))]);
                                                     (zz2 ++ ".q", YMap [("maxCount", ex_I "0"); ("datatype", ex_S "xsd.string")])])])])].
Example respell_example :
  let d1 := rs_doc "ex" "zz" "zz" [] in
  let d2 := rs_doc "e2" "alias" "zz" [("alias", ex_S "http://example.org/zz#")] in
  let d3 := rs_doc "ex" "zz" "zz" [("zz", ex_S "http://elsewhere.example/zz#")] in   (* same table: the first binding wins *)
  let d4 := rs_doc "ex" "other" "zz" [("other", ex_S "http://elsewhere.example/zz#")] in
  let defaults := [("xsd", "http://www.w3.org/2001/XMLSchema#")] in
  respell_doc_b defaults d1 d2 = true /\ d1 <> d2
  /\ respell_doc_b defaults d1 d3 = true
  /\ respell_doc_b defaults d1 d4 = false
  /\ verdict_keys defaults d1 ex_graph = POk [(Violation, "a", "n1"); (Violation, "b", "n1")]
  /\ verdict_keys defaults d2 ex_graph = verdict_keys defaults d1 ex_graph.
Proof. vm_compute. repeat split; try reflexivity. intros H; discriminate H. Qed.
