(* Every clause the translator writes for a property path is SAFE in the engine's sense - each statement needs only variables
   that earlier statements of the clause have bound - and binds `nodes`, for every path, every start variable, both modes. *)
From ACV Require Import Base.Strs Model.Graph Model.PathGrammar Model.PathSem Model.Report Model.Names Model.PathGen.
From ACV Require Import Proofs.PathSemProofs Proofs.NamesProofs.
Local Open Scope list_scope.

Lemma in_strs_hd x env : in_strs x (x :: env) = true.
Proof. apply in_strs_In. now left. Qed.
Lemma in_strs_tl x y env : in_strs x env = true -> in_strs x (y :: env) = true.
Proof. rewrite !in_strs_In. intros H. now right. Qed.

(* the statements of one step, from an environment that holds the source variable: safe, and the step's variable is bound after *)
Lemma step_safe : forall s b src env rest,
  in_strs src env = true ->
  (forall env', in_strs b env' = true -> safe_from env' rest = true) ->
  safe_from env (map du (step_stmts s b src) ++ rest) = true.
Proof.
  intros s b src env rest Hsrc Hrest. unfold step_stmts.
  destruct (custom_name (s_iri s)) as [name|]; (destruct (s_inv s); [|destruct (s_fetch s)]);
    cbn [map du app safe_from forallb]; rewrite ?Hsrc; cbn [andb]; rewrite ?in_strs_hd; cbn [andb];
    rewrite ?in_strs_hd; cbn [andb]; apply Hrest, in_strs_hd.
Qed.

Lemma emit_safe_from : forall v steps k src env, in_strs src env = true ->
  safe_from env (map du (emit v steps (S k) src)) = true.
Proof.
  intros v. induction steps as [|s r IH]; intros k src env Hsrc.
  - cbn [emit map du safe_from forallb]. now rewrite Hsrc.
  - cbn [emit]. rewrite map_app. apply step_safe; [exact Hsrc|]. intros env' Hb. apply IH. exact Hb.
Qed.

Theorem clause_safe : forall v s r, safe_from [] (map du (emit v (s :: r) 0 "")) = true.
Proof.
  intros v s r. cbn [emit map du safe_from forallb andb]. rewrite map_app. apply step_safe; [apply in_strs_hd|].
  intros env' Hb. apply emit_safe_from. exact Hb.
Qed.

(* no clause of a traversal is empty (the traversal of a path always ends with a step) *)
Lemma trav_nonempty : forall p fetch prefix c, In c (trav p fetch prefix) -> c <> [].
Proof.
  induction p as [iri inv tr|l IHl|l IHl] using path_ind2; intros fetch prefix c Hin.
  - cbn in Hin. destruct Hin as [<-|[]]. destruct prefix; discriminate.
  - rewrite trav_And in Hin. revert prefix c Hin. induction l as [|q r IHr]; intros prefix c Hin; [destruct Hin|].
    inversion IHl as [|? ? Hq Hr]; subst. cbn in Hin. destruct r as [|q' r'].
    + eapply Hq. exact Hin.
    + apply in_flat_map in Hin as [c0 [_ Hin]]. eapply (IHr Hr). exact Hin.
  - cbn in Hin. apply in_flat_map in Hin as [q0 [Hq0 Hin]]. rewrite Forall_forall in IHl. eapply IHl; eassumption.
Qed.

Theorem path_clauses_safe : forall p fetch v cl, In cl (path_clauses p fetch v) -> safe_from [] (map du cl) = true.
Proof.
  intros p fetch v cl Hin. unfold path_clauses in Hin. apply in_map_iff in Hin as [c [<- Hc]].
  pose proof (trav_nonempty p fetch [] c Hc) as Hne. destruct c as [|s r]; [congruence|]. apply clause_safe.
Qed.

(* every clause ends by binding `nodes` (the variable of the rule head) to the variable of its last step *)
Lemma emit_ends_with_nodes : forall v steps k src, exists pre x, emit v steps (S k) src = pre ++ [PNodes x].
Proof.
  intros v. induction steps as [|s r IH]; intros k src; [exists [], src; reflexivity|].
  cbn [emit]. destruct (IH (S k) (binding v (S k))) as [pre [x Hx]]. rewrite Hx.
  exists (step_stmts s (binding v (S k)) src ++ pre), x. now rewrite app_assoc.
Qed.
Theorem clause_ends_with_nodes : forall p fetch v cl, In cl (path_clauses p fetch v) -> exists pre x, cl = pre ++ [PNodes x].
Proof.
  intros p fetch v cl Hin. unfold path_clauses in Hin. apply in_map_iff in Hin as [c [<- Hc]].
  pose proof (trav_nonempty p fetch [] c Hc) as Hne. destruct c as [|s r]; [congruence|]. cbn [emit].
  destruct (emit_ends_with_nodes v r 1 (binding v 0)) as [pre [x Hx]]. rewrite Hx.
  exists (PInit (binding v 0) :: step_stmts s (binding v 0) ("init_" ++ binding v 0) ++ pre), x.
  cbn [app]. now rewrite app_assoc.
Qed.

(* non-vacuity: the clauses of `( ex.a / ( ex.b | ex.c ^ ) ) | ex.d`, values mode *)
Example path_clauses_example :
  path_rule_lines (Or [And [Pred "A" false false; Or [Pred "B" false false; Pred "C" true false]]; Pred "D" false false]) false "x"
  = [["init_x_0 = data.sourceNode"; "tmp_x_0 = nested_nodes with data.nodes as init_x_0[""A""]"; "x_0 = tmp_x_0[_][_]";
      "nodes_tmp = object.get(x_0,""B"",[])"; "nodes_tmp2 = nodes_array with data.nodes as nodes_tmp"; "x_2 = nodes_tmp2[_]"; "nodes = x_2"];
     ["init_x_0 = data.sourceNode"; "tmp_x_0 = nested_nodes with data.nodes as init_x_0[""A""]"; "x_0 = tmp_x_0[_][_]";
      "search_subjects[x_2] with data.predicate as ""C"" with data.object as x_0"; "nodes = x_2"];
     ["init_x_0 = data.sourceNode"; "nodes_tmp = object.get(init_x_0,""D"",[])"; "nodes_tmp2 = nodes_array with data.nodes as nodes_tmp";
      "x_0 = nodes_tmp2[_]"; "nodes = x_0"]]%string.
Proof. vm_compute. reflexivity. Qed.

(* ------------------------------------------------------------------ the step variables of a clause are bound once *)
From ACV Require Import Proofs.ReportProofs.
Local Open Scope string_scope.

(* the variable each statement binds FOR A STEP (not the temporaries tmp_ / nodes_tmp, not init_, not nodes) *)
Definition step_var (s : pstmt) : list string :=
  match s with
  | PInv b _ _ | PFetchB b | PLast b | PCInv b _ _ | PCId b => [b]
  | _ => []
  end.
Definition step_vars (l : list pstmt) : list string := flat_map step_var l.

Lemma NoDup_map_inj' {X Y} (f : X -> Y) l : (forall a b, f a = f b -> a = b) -> NoDup l -> NoDup (map f l).
Proof.
  intros Hinj. induction 1 as [|x l Hx Hl IH]; cbn [map]; constructor; auto.
  rewrite in_map_iff. intros [y [E Hy]]. apply Hinj in E. subst. contradiction.
Qed.
Lemma binding_inj v i j : binding v i = binding v j -> i = j.
Proof. unfold binding. intros E. apply append_inj_l in E. apply append_inj_l in E. now apply dec_inj. Qed.

Lemma step_vars_of_step s b src : step_vars (step_stmts s b src) = [b].
Proof. unfold step_stmts. destruct (custom_name (s_iri s)); destruct (s_inv s); try destruct (s_fetch s); reflexivity. Qed.

Lemma step_vars_app a b : step_vars (a ++ b) = (step_vars a ++ step_vars b)%list.
Proof. unfold step_vars. apply flat_map_app. Qed.

(* from path-variable count S k on, the step variables are binding v (S k), binding v (S (S k)), ... *)
Lemma emit_step_vars : forall v steps k src,
  step_vars (emit v steps (S k) src) = map (fun i => binding v (S k + i)) (seq 0 (List.length steps)).
Proof.
  intros v. induction steps as [|s r IH]; intros k src; [reflexivity|].
  cbn [emit]. rewrite step_vars_app, step_vars_of_step, IH. cbn [List.length seq map app]. rewrite Nat.add_0_r. f_equal.
  rewrite <- seq_shift, map_map. apply map_ext. intros i. f_equal. lia.
Qed.

Theorem clause_step_variables_bound_once : forall p fetch v cl, In cl (path_clauses p fetch v) -> NoDup (step_vars cl).
Proof.
  intros p fetch v cl Hin. unfold path_clauses in Hin. apply in_map_iff in Hin as [c [<- Hc]].
  pose proof (trav_nonempty p fetch [] c Hc) as Hne. destruct c as [|s r]; [congruence|]. cbn [emit].
  change (PInit (binding v 0) :: step_stmts s (binding v 0) ("init_" ++ binding v 0) ++ emit v r 2 (binding v 0))
    with ([PInit (binding v 0)] ++ step_stmts s (binding v 0) ("init_" ++ binding v 0) ++ emit v r 2 (binding v 0))%list.
  rewrite !step_vars_app, step_vars_of_step, emit_step_vars. cbn [step_vars flat_map step_var app].
  constructor.
  - rewrite in_map_iff. intros [i [E _]]. apply binding_inj in E. lia.
  - apply NoDup_map_inj'; [|apply seq_NoDup]. intros a b E. apply binding_inj in E. lia.
Qed.
