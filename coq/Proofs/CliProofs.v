From ACV Require Import Base.Strs Model.Cli.

Lemma write_at0_trunc : forall text, write_at0 "" text = text.
Proof.
  intros text. unfold write_at0. rewrite sdrop_all by (simpl; lia). apply append_nil_r.
Qed.

Lemma open_write_trunc : forall cell text,
  usable cell = true -> open_write true cell text = Some (File true text).
Proof.
  intros [| |[|] old] text H; simpl in *; try discriminate; try reflexivity.
  now rewrite write_at0_trunc.
Qed.

(* stdout form of validate / generate / normalize *)
Lemma stdout_exact : forall trunc c cell text,
  (c = CValidate /\ True) \/ c = CGenerate \/ c = CNormalize ->
  run trunc c (match c with CValidate => 4 | _ => 3 end) true (LibOk text) cell
  = {| o_stdout := println text; o_exit := Exit0; o_cell := cell |}.
Proof. intros trunc c cell text [[-> _]|[->| ->]]; reflexivity. Qed.

Lemma file_exact : forall cell text,
  usable cell = true ->
  run true CValidate 5 true (LibOk text) cell
  = {| o_stdout := ""; o_exit := Exit0; o_cell := File true text |}.
Proof.
  intros cell text H. unfold run. simpl. now rewrite (open_write_trunc _ _ H).
Qed.

Lemma fail_no_stdout : forall trunc c nargs readable cell,
  c <> CHelp ->
  let o := run trunc c nargs readable LibErr cell in
  o_exit o <> Exit0 /\ o_stdout o = "" /\ o_cell o = cell.
Proof.
  intros trunc c nargs readable cell Hc.
  destruct c; try congruence; unfold run;
  try (destruct (nargs_ok _ nargs); destruct readable); simpl; repeat split; discriminate.
Qed.

Lemma unreadable_no_stdout : forall trunc c nargs lib cell,
  c <> CHelp ->
  let o := run trunc c nargs false lib cell in
  o_exit o <> Exit0 /\ o_stdout o = "" /\ o_cell o = cell.
Proof.
  intros trunc c nargs lib cell Hc.
  destruct c; try congruence; unfold run;
  try (destruct (nargs_ok _ nargs)); simpl; repeat split; discriminate.
Qed.

(* an unusable output path (directory, read-only file) is a failure that prints nothing *)
Lemma bad_output_path : forall trunc cell text,
  usable cell = false -> cell <> Absent ->
  let o := run trunc CValidate 5 true (LibOk text) cell in
  o_exit o = Exit2 /\ o_stdout o = "" /\ o_cell o = cell.
Proof.
  intros trunc [| |[|] old] text H Hn; simpl in *; try discriminate; try congruence; repeat split.
Qed.

(* usable is preserved by every run with the truncating open *)
Lemma run_file_usable : forall cell lib, usable cell = true -> usable (run_file true cell lib) = true.
Proof.
  intros cell [text|] H; unfold run_file.
  - now rewrite (file_exact _ _ H).
  - simpl. exact H.
Qed.

Lemma history_content : forall libs cell,
  usable cell = true ->
  content_of (run_history true cell libs) = last_ok libs (content_of cell)
  /\ usable (run_history true cell libs) = true.
Proof.
  unfold run_history.
  induction libs as [|lib libs IH]; intros cell H; cbn [fold_left last_ok].
  - split; [reflexivity|exact H].
  - destruct lib as [text|].
    + assert (E : run_file true cell (LibOk text) = File true text).
      { unfold run_file. now rewrite (file_exact _ _ H). }
      rewrite E. apply (IH (File true text)). reflexivity.
    + assert (E : run_file true cell LibErr = cell) by reflexivity.
      rewrite E. apply IH. exact H.
Qed.

(* Without O_TRUNC the property is false: the witness is the defect that was repaired (D21). *)
Lemma no_trunc_refuted :
  exists old text,
    o_cell (run false CValidate 5 true (LibOk text) (File true old)) <> File true text.
Proof.
  exists "{""conforms"": false, ""result"": []}", "{}". vm_compute. discriminate.
Qed.

(* ------------------------------------------------------------------ Model |= Spec, in one statement *)
Lemma cell_eqb_refl : forall c, cell_eqb c c = true.
Proof. intros [| |w s]; simpl; auto. now rewrite Bool.eqb_reflx, String.eqb_refl. Qed.

Lemma spec_run_holds : forall c nargs readable lib cell,
  spec_run c nargs readable lib cell (run true c nargs readable lib cell) = true.
Proof.
  intros c nargs readable lib cell.
  assert (Hs : forall x, x <> Exit0 -> silent_failure cell {| o_stdout := ""; o_exit := x; o_cell := cell |} = true).
  { intros x Hx. unfold silent_failure. simpl. rewrite cell_eqb_refl. destruct x; simpl; congruence. }
  assert (Hp : forall t, prints_exactly t cell {| o_stdout := println t; o_exit := Exit0; o_cell := cell |} = true).
  { intros t. unfold prints_exactly. simpl. now rewrite cell_eqb_refl, String.eqb_refl. }
  destruct c; unfold spec_run, run; try reflexivity; try (apply Hs; discriminate);
  destruct (nargs_ok _ nargs) eqn:En; simpl; try (apply Hs; discriminate);
  destruct readable; simpl; try (apply Hs; discriminate);
  destruct lib as [text|]; try (apply Hs; discriminate); try apply Hp.
  - (* validate *)
    destruct (Nat.eqb nargs 4); [apply Hp|].
    destruct cell as [| |[|] old]; simpl; try (apply Hs; discriminate).
    + now rewrite String.eqb_refl.
    + rewrite write_at0_trunc. now rewrite String.eqb_refl.
  - (* compile *) simpl. apply cell_eqb_refl.
Qed.

Lemma spec_history_holds : forall libs cell, spec_history cell libs (run_history true cell libs) = true.
Proof.
  intros libs cell. unfold spec_history. destruct (usable cell) eqn:E; [|reflexivity].
  rewrite (proj1 (history_content libs cell E)).
  destruct (last_ok libs (content_of cell)); simpl; auto. apply String.eqb_refl.
Qed.
