(* C15 (parser side): the profile parser reads a mapping only through Get, except that the entries of
   propertyConstraints become, in document order, the operands of an `and`.  Hence permuting the keys of an
   expression mapping does not change what is parsed, and permuting the entries of propertyConstraints permutes
   the operands of that `and` (YamlProofs.rewrite: same verdicts). *)
From Coq Require Import Permutation.
From ACV Require Import Base.Strs Model.Graph Model.PathGrammar Model.Dnf Model.Rules Model.Yaml Model.ProfileParser.
From ACV Require Import Proofs.YamlProofs.
Local Open Scope list_scope.

Definition same_lookups (y y' : ynode) : Prop :=
  (forall k, yget k y = yget k y').

(* an expression mapping is read through Get only *)
Theorem parse_expr_reads_through_get : forall ctx fuel y y', same_lookups y y' ->
  parse_expr ctx fuel y = parse_expr ctx fuel y'.
Proof.
  intros ctx fuel y y' H. destruct fuel as [|fuel]; [reflexivity|].
  cbn [parse_expr]. unfold expr_body, present. rewrite !H. reflexivity.
Qed.

Corollary parse_expr_key_order : forall ctx fuel l l', NoDup (map fst l) -> Permutation l l' ->
  parse_expr ctx fuel (YMap l) = parse_expr ctx fuel (YMap l').
Proof. intros ctx fuel l l' Hnd Hp. apply parse_expr_reads_through_get. intros k. now apply get_perm. Qed.

(* map_p over a permuted list: the successful results are permuted the same way *)
Lemma map_p_perm {X Y} (f : X -> presult Y) l l' : Permutation l l' ->
  forall r, map_p f l = POk r -> exists r', map_p f l' = POk r' /\ Permutation r r'.
Proof.
  induction 1 as [|x l l' Hp IH|x y l|l l' l'' H1 IH1 H2 IH2]; intros r Hr.
  - simpl in *. inversion Hr. exists []. auto.
  - simpl in *. destruct (f x) as [a| |]; try discriminate. simpl in *.
    destruct (map_p f l) as [b| |]; try discriminate. simpl in Hr. inversion Hr; subst.
    destruct (IH b eq_refl) as [b' [E Hb]]. rewrite E. simpl. exists (a :: b'). auto.
  - simpl in *. destruct (f y) as [a| |]; try discriminate. simpl in *. destruct (f x) as [b| |]; try discriminate. simpl in *.
    destruct (map_p f l) as [c| |]; try discriminate. simpl in Hr. inversion Hr; subst.
    exists (b :: a :: c). split; [reflexivity|apply perm_swap].
  - destruct (IH1 r Hr) as [r' [E1 P1]]. destruct (IH2 r' E1) as [r'' [E2 P2]]. exists r''. split; [assumption|]. eapply perm_trans; eauto.
Qed.

Lemma concat_perm {X} (a b : list (list X)) : Permutation a b -> Permutation (List.concat a) (List.concat b).
Proof.
  induction 1; simpl; auto.
  - now apply Permutation_app_head.
  - rewrite !app_assoc. apply Permutation_app_tail. apply Permutation_app_comm.
  - eapply perm_trans; eauto.
Qed.

(* reordering the entries of propertyConstraints (and, inside one property, nothing: the constraint keys are read
   in the parser's fixed order) permutes the operands of the implicit and *)
Theorem property_constraints_order : forall ctx fuel rest entries entries' f,
  Permutation entries entries' ->
  parse_expr ctx (S fuel) (YMap (("propertyConstraints", YMap entries) :: rest)) = POk f ->
  exists f', parse_expr ctx (S fuel) (YMap (("propertyConstraints", YMap entries') :: rest)) = POk f' /\ rewrite f f'.
Proof.
  intros ctx fuel rest entries entries' f Hp Hf. cbn [parse_expr] in *. unfold expr_body in *. cbn [yget assoc] in *. rewrite String.eqb_refl in *.
  match type of Hf with pbind (map_p ?pc entries) _ = _ => destruct (map_p pc entries) as [ls| |] eqn:E; try discriminate;
    destruct (map_p_perm pc entries entries' Hp ls E) as [ls' [E' Pl]]; rewrite E' end.
  simpl in *. inversion Hf; subst. eexists. split; [reflexivity|]. apply rw_and_perm. now apply concat_perm.
Qed.

(* reordering the constraints of one property changes nothing at all: they are read by name, in a fixed order *)
Theorem constraint_key_order : forall ctx fuel before path cm cm' after rest,
  NoDup (map fst cm) -> Permutation cm cm' ->
  parse_expr ctx (S fuel) (YMap (("propertyConstraints", YMap (before ++ (path, YMap cm) :: after)) :: rest))
  = parse_expr ctx (S fuel) (YMap (("propertyConstraints", YMap (before ++ (path, YMap cm') :: after)) :: rest)).
Proof.
  intros ctx fuel before path cm cm' after rest Hnd Hp. cbn [parse_expr]. unfold expr_body. cbn [yget assoc]. rewrite String.eqb_refl.
  assert (E : forall k, assoc k cm = assoc k cm') by (intros; now apply assoc_perm).
  match goal with |- pbind (map_p ?pc _) _ = _ =>
    assert (Hpc : pc (path, YMap cm) = pc (path, YMap cm')) by (unfold parse_pc, pc_unsupported, pc_counts, pc_pattern, pc_scalar_set, pc_cmp, pc_qualified, pc_num, pc_datatype, pc_nested, present, count_atom; cbn [yget]; rewrite !E; reflexivity);
    assert (Hm : map_p pc (before ++ (path, YMap cm) :: after) = map_p pc (before ++ (path, YMap cm') :: after))
  end.
  { induction before as [|e before IH]; cbn [app map_p]; [now rewrite Hpc|now rewrite IH]. }
  now rewrite Hm.
Qed.

(* the model reads an expression mapping, and the mapping of one property's constraints, ONLY under the keys the Go parser
   looks up (SharedRef.ref_parser_*_key_order, tied to the source by C15_tie_parser_order) *)
From ACV Require Import Model.SharedRef.
Theorem expr_body_reads_only ctx rec y y' :
  (forall k, In k ref_parser_expression_key_order -> yget k y = yget k y') -> expr_body ctx rec y = expr_body ctx rec y'.
Proof.
  intros H. unfold expr_body, present.
  rewrite !H by (unfold ref_parser_expression_key_order; simpl; tauto). reflexivity.
Qed.
Theorem parse_pc_reads_only ctx rec path c c' :
  (forall k, In k ref_parser_constraint_key_order -> yget k (YMap c) = yget k (YMap c')) ->
  parse_pc ctx rec (path, YMap c) = parse_pc ctx rec (path, YMap c').
Proof.
  intros H. unfold parse_pc, pc_unsupported, pc_counts, pc_pattern, pc_scalar_set, pc_cmp, pc_qualified, pc_num, pc_datatype, pc_nested, present, count_atom.
  rewrite !H by (unfold ref_parser_constraint_key_order; simpl; tauto). reflexivity.
Qed.
