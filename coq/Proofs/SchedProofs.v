(* C10 / C06: whatever the interleaving, an atomic counter hands out pairwise different numbers (so no two
   generated rule names of any module coincide) and each compilation sees an increasing sequence; loops over
   maps that only build maps are insensitive to the iteration order. *)
From Coq Require Import Permutation.
From ACV Require Import Base.Strs Model.Sched.
Local Open Scope list_scope.

Lemma run_app w s1 s2 : run w (s1 ++ s2) = run (run w s1) s2.
Proof. unfold run. apply fold_left_app. Qed.

(* with only atomic bumps, the numbers handed out are counter+1, counter+2, ... in schedule order *)
Lemma run_only_gen : forall s w, only_gen s = true ->
  counter (run w s) = counter w + List.length s
  /\ numbers (run w s) = numbers w ++ map (fun i => counter w + S i) (seq 0 (List.length s)).
Proof.
  induction s as [|[tid a] s IH]; intros w Hg; simpl.
  - split; [lia|]. now rewrite app_nil_r.
  - simpl in Hg. destruct a; try discriminate.
    change (run w ((tid, AGen) :: s)) with (run (step w tid AGen) s).
    destruct (IH (step w tid AGen) Hg) as [Hc Hn]. rewrite Hc, Hn. clear Hc Hn IH.
    split; [simpl; lia|]. unfold numbers. simpl. rewrite map_app. simpl. rewrite <- app_assoc. simpl.
    f_equal. f_equal; [lia|]. rewrite <- seq_shift, map_map. apply map_ext. intros i. lia.
Qed.

Lemma NoDup_map_inj {X Y} (f : X -> Y) l : (forall a b, f a = f b -> a = b) -> NoDup l -> NoDup (map f l).
Proof.
  intros Hinj. induction 1; simpl; constructor; auto.
  rewrite in_map_iff. intros [y [E Hy]]. apply Hinj in E. subst. contradiction.
Qed.

(* every schedule: the numbers handed out (to all threads together) are pairwise different *)
Theorem atomic_numbers_unique : forall s c, only_gen s = true ->
  NoDup (numbers (run {| counter := c; handed := [] |} s)).
Proof.
  intros s c Hg. destruct (run_only_gen s {| counter := c; handed := [] |} Hg) as [_ Hn]. rewrite Hn. simpl.
  apply NoDup_map_inj; [intros a b; simpl; lia|apply seq_NoDup].
Qed.

Lemma NoDup_flat_map_filter (f : nat * nat -> bool) l : NoDup (map snd l) ->
  NoDup (flat_map (fun tn => if f tn then [snd tn] else []) l).
Proof.
  induction l as [|x l IH]; simpl; intros H; [constructor|]. inversion H; subst.
  destruct (f x); simpl; [constructor|]; auto.
  intros Hin. apply in_flat_map in Hin as [y [Hy Hin]]. destruct (f y); simpl in Hin; [|contradiction].
  destruct Hin as [E|[]]. apply H2. rewrite <- E. now apply in_map.
Qed.

(* hence the names one compilation receives are pairwise different whatever the other compilations do *)
Theorem atomic_thread_numbers_unique : forall s c tid, only_gen s = true ->
  NoDup (numbers_of tid (run {| counter := c; handed := [] |} s)).
Proof. intros s c tid Hg. unfold numbers_of. apply NoDup_flat_map_filter. now apply atomic_numbers_unique. Qed.

(* the unsynchronised version: two compilations can be handed the same number (the repaired defect D11) *)
Theorem nonatomic_refuted :
  let s := [(0, AInc); (1, AInc); (0, ARead); (1, ARead)] in
  program_of 0 s = [AInc; ARead] /\ program_of 1 s = [AInc; ARead]
  /\ numbers (run {| counter := 0; handed := [] |} s) = [2; 2].
Proof. vm_compute. repeat split. Qed.
(* a reset while another compilation is running re-issues numbers inside that compilation's module *)
Theorem reset_refuted :
  let s := [(0, AGen); (0, AGen); (1, AReset); (0, AGen); (0, AGen)] in
  numbers_of 0 (run {| counter := 0; handed := [] |} s) = [1; 2; 1; 2].
Proof. vm_compute. repeat split. Qed.

(* ------------------------------------------------------------------ map-building loops *)
Lemma lookup_merge_not_in {V} k (entries : list (string * V)) : forall this,
  ~ In k (map fst entries) -> lookup k (merge_in_order this entries) = lookup k this.
Proof.
  induction entries as [|[k' v] es IH]; intros this Hn; simpl; [reflexivity|].
  unfold merge_in_order in *. simpl. rewrite IH by (simpl in Hn; tauto). simpl.
  destruct (String.eqb k' k) eqn:E; [|reflexivity]. apply String.eqb_eq in E. subst. simpl in Hn. tauto.
Qed.
Lemma lookup_merge_in {V} k v (entries : list (string * V)) : forall this,
  NoDup (map fst entries) -> In (k, v) entries -> lookup k (merge_in_order this entries) = Some v.
Proof.
  induction entries as [|[k' v'] es IH]; intros this Hnd Hin; [destruct Hin|]. simpl in Hnd. inversion Hnd; subst.
  unfold merge_in_order in *. simpl. destruct Hin as [E|Hin].
  - inversion E; subst. fold (merge_in_order (insert this (k, v)) es). rewrite lookup_merge_not_in by assumption.
    simpl. now rewrite String.eqb_refl.
  - now apply IH.
Qed.

(* the merged map does not depend on the order in which the source map is iterated *)
Theorem merge_order_irrelevant : forall V (this : amap V) entries entries', NoDup (map fst entries) ->
  Permutation entries entries' -> forall k, lookup k (merge_in_order this entries) = lookup k (merge_in_order this entries').
Proof.
  intros V this entries entries' Hnd Hp k.
  assert (Hnd' : NoDup (map fst entries')) by (eapply Permutation_NoDup; [apply Permutation_map; exact Hp|assumption]).
  destruct (in_dec string_dec k (map fst entries)) as [Hin|Hn].
  - apply in_map_iff in Hin as [[k0 v] [E Hin]]. simpl in E. subst k0.
    rewrite (lookup_merge_in k v entries this Hnd Hin).
    rewrite (lookup_merge_in k v entries' this Hnd' (Permutation_in _ Hp Hin)). reflexivity.
  - rewrite lookup_merge_not_in by assumption. rewrite lookup_merge_not_in; [reflexivity|].
    intros Hin. apply Hn. eapply Permutation_in; [apply Permutation_sym, Permutation_map; exact Hp|assumption].
Qed.
