(* C02: the clauses the generator emits for a property path (PathSem.trav, evaluated by PathSem.run and
   united by model_values) compute exactly the path's denotation (PathSem.den): predicate = its objects,
   `/` = composition through nodes, `|` = union, `^` = converse; for every path of any shape and every
   graph (cycles, shared children, literals and dangling links mid-path, duplicate ids). *)
From Coq Require Import Permutation.
From ACV Require Import Base.Strs Model.Graph Model.PathGrammar Model.PathSem.

Section path_ind2.
  Variable Q : path -> Prop.
  Hypothesis HPred : forall i a b, Q (Pred i a b).
  Hypothesis HAnd : forall l, Forall Q l -> Q (And l).
  Hypothesis HOr : forall l, Forall Q l -> Q (Or l).
  Fixpoint path_ind2 (p : path) : Q p :=
    match p with
    | Pred i a b => HPred i a b
    | And l => HAnd l ((fix go l := match l return Forall Q l with [] => Forall_nil _ | x :: xs => Forall_cons _ (path_ind2 x) (go xs) end) l)
    | Or l => HOr l ((fix go l := match l return Forall Q l with [] => Forall_nil _ | x :: xs => Forall_cons _ (path_ind2 x) (go xs) end) l)
    end.
End path_ind2.

(* ------------------------------------------------------------------ generic list facts *)
Section Dedup.
Variable X : Type.
Variable eqb : X -> X -> bool.
Hypothesis eqb_eq : forall a b, eqb a b = true <-> a = b.

Lemma existsb_eqb_In x l : existsb (eqb x) l = true <-> In x l.
Proof.
  rewrite existsb_exists. split.
  - intros [y [Hy He]]. apply eqb_eq in He. now subst.
  - intros H. exists x. split; [assumption|now apply eqb_eq].
Qed.

Lemma dedup_In x l : In x (dedup eqb l) <-> In x l.
Proof.
  induction l as [|y l IH]; simpl; [tauto|].
  destruct (existsb (eqb y) l) eqn:E.
  - rewrite IH. split; [auto|]. intros [->|H]; [|assumption]. now apply existsb_eqb_In.
  - simpl. rewrite IH. tauto.
Qed.

Lemma dedup_NoDup l : NoDup (dedup eqb l).
Proof.
  induction l as [|y l IH]; simpl; [constructor|].
  destruct (existsb (eqb y) l) eqn:E; [assumption|].
  constructor; [|assumption]. rewrite dedup_In. intros H. apply existsb_eqb_In in H. congruence.
Qed.
End Dedup.
Arguments dedup_In {X}. Arguments dedup_NoDup {X}. Arguments existsb_eqb_In {X}.

Lemma NoDup_map_inj_in {X Y} (f : X -> Y) (l : list X) :
  (forall a b, In a l -> In b l -> f a = f b -> a = b) -> NoDup l -> NoDup (map f l).
Proof.
  induction l as [|x l IH]; simpl; intros Hinj Hnd; [constructor|].
  inversion Hnd as [|? ? Hx Hl]; subst. constructor.
  - rewrite in_map_iff. intros [y [Hy Hin]]. apply Hx.
    assert (y = x) by (apply Hinj; auto). now subst.
  - apply IH; auto.
Qed.

Lemma same_members_length {X} (a b : list X) :
  NoDup a -> NoDup b -> (forall x, In x a <-> In x b) -> List.length a = List.length b.
Proof. intros Ha Hb H. apply Permutation_length. now apply NoDup_Permutation. Qed.

Lemma rv_eqb_eq a b : rv_eqb a b = true <-> a = b.
Proof.
  destruct a as [x|v], b as [y|w]; simpl; split; intros H; try discriminate; try congruence.
  - apply String.eqb_eq in H. congruence.
  - inversion H. apply String.eqb_refl.
  - apply value_eqb_eq in H. congruence.
  - inversion H. now apply value_eqb_eq.
Qed.

Lemma aval_eqb_eq a b : aval_eqb a b = true <-> a = b.
Proof.
  destruct a as [x|v], b as [y|w]; simpl; split; intros H; try discriminate; try congruence.
  - apply String.eqb_eq in H. congruence.
  - inversion H. apply String.eqb_refl.
  - apply value_eqb_eq in H. congruence.
  - inversion H. now apply value_eqb_eq.
Qed.

Lemma str_eqb_eq (a b : string) : String.eqb a b = true <-> a = b.
Proof. apply String.eqb_eq. Qed.

(* ------------------------------------------------------------------ clauses = compositional semantics *)
Section OnGraph.
Variable g : graph.

Definition trav_seq (fetch : bool) :=
  fix go (l : list path) (prefix : list step) {struct l} : list (list step) :=
    match l with
    | [] => []
    | q :: r => match r with
                | [] => trav q fetch prefix
                | _ => flat_map (go r) (trav q true prefix)
                end
    end.
Definition sem_seq (fetch : bool) :=
  fix go (l : list path) (cur : rv) {struct l} : list rv :=
    match l with
    | [] => []
    | q :: r => match r with
                | [] => sem g q fetch cur
                | _ => flat_map (go r) (sem g q true cur)
                end
    end.
Definition den_seq :=
  fix go (l : list path) (n : string) {struct l} : list aval :=
    match l with
    | [] => []
    | q :: r => match r with
                | [] => den g q n
                | _ => flat_map (fun a => match a with
                                          | ARef x => if in_graph g x then go r x else []
                                          | ALit _ => []
                                          end) (den g q n)
                end
    end.
Lemma trav_And l fetch prefix : trav (And l) fetch prefix = trav_seq fetch l prefix.
Proof. reflexivity. Qed.
Lemma sem_And l fetch cur : sem g (And l) fetch cur = sem_seq fetch l cur.
Proof. reflexivity. Qed.
Lemma den_And l n : den g (And l) n = den_seq l n.
Proof. reflexivity. Qed.

Lemma run_app a b cur : run g (a ++ b) cur = run g b (run g a cur).
Proof. unfold run. apply fold_left_app. Qed.

Definition clauses_agree (p : path) : Prop :=
  forall fetch prefix cur x,
    In x (flat_map (fun c => run g c cur) (trav p fetch prefix))
    <-> In x (flat_map (sem g p fetch) (run g prefix cur)).

Lemma clauses_agree_seq l : Forall clauses_agree l ->
  forall fetch prefix cur x,
    In x (flat_map (fun c => run g c cur) (trav_seq fetch l prefix))
    <-> In x (flat_map (sem_seq fetch l) (run g prefix cur)).
Proof.
  induction 1 as [|q r Hq Hr IH]; intros fetch prefix cur x.
  - simpl. rewrite in_flat_map. split; [tauto|]. intros [y [_ []]].
  - destruct r as [|q' r'].
    + apply Hq.
    + change (trav_seq fetch (q :: q' :: r') prefix) with (flat_map (trav_seq fetch (q' :: r')) (trav q true prefix)).
      rewrite !in_flat_map. split.
      * intros [c [Hc Hx]]. apply in_flat_map in Hc as [c' [Hc' Hc]].
        assert (H1 : In x (flat_map (fun c => run g c cur) (trav_seq fetch (q' :: r') c')))
          by (apply in_flat_map; eauto).
        apply IH in H1. apply in_flat_map in H1 as [y [Hy Hx']].
        assert (H2 : In y (flat_map (fun c => run g c cur) (trav q true prefix)))
          by (apply in_flat_map; eauto).
        apply Hq in H2. apply in_flat_map in H2 as [z [Hz Hy']].
        exists z. split; [assumption|].
        change (sem_seq fetch (q :: q' :: r') z) with (flat_map (sem_seq fetch (q' :: r')) (sem g q true z)).
        apply in_flat_map; eauto.
      * intros [z [Hz Hx]].
        change (sem_seq fetch (q :: q' :: r') z) with (flat_map (sem_seq fetch (q' :: r')) (sem g q true z)) in Hx.
        apply in_flat_map in Hx as [y [Hy Hx]].
        assert (H2 : In y (flat_map (sem g q true) (run g prefix cur))) by (apply in_flat_map; eauto).
        apply Hq in H2. apply in_flat_map in H2 as [c' [Hc' Hy']].
        assert (H1 : In x (flat_map (sem_seq fetch (q' :: r')) (run g c' cur))) by (apply in_flat_map; eauto).
        apply IH in H1. apply in_flat_map in H1 as [c [Hc Hx']].
        exists c. split; [|assumption]. apply in_flat_map; eauto.
Qed.

Lemma clauses_agree_all : forall p, clauses_agree p.
Proof.
  induction p as [iri inv tr|l IHl|l IHl] using path_ind2; intros fetch prefix cur x.
  - simpl. rewrite app_nil_r, run_app. unfold run at 1. simpl. tauto.
  - rewrite trav_And. rewrite (clauses_agree_seq l IHl). tauto.
  - simpl. rewrite !in_flat_map. split.
    + intros [c [Hc Hx]]. apply in_flat_map in Hc as [q [Hq Hc]].
      rewrite Forall_forall in IHl.
      assert (H1 : In x (flat_map (fun c => run g c cur) (trav q fetch prefix))) by (apply in_flat_map; eauto).
      apply (IHl q Hq) in H1. apply in_flat_map in H1 as [y [Hy Hx']].
      exists y. split; [assumption|]. apply in_flat_map; eauto.
    + intros [y [Hy Hx]]. apply in_flat_map in Hx as [q [Hq Hx]].
      rewrite Forall_forall in IHl.
      assert (H1 : In x (flat_map (sem g q fetch) (run g prefix cur))) by (apply in_flat_map; eauto).
      apply (IHl q Hq) in H1. apply in_flat_map in H1 as [c [Hc Hx']].
      exists c. split; [|assumption]. apply in_flat_map; eauto.
Qed.

Lemma model_values_sem p fetch n x :
  In x (model_values g p fetch n) <-> In x (sem g p fetch (RNode n)).
Proof.
  unfold model_values. rewrite (dedup_In rv_eqb rv_eqb_eq).
  rewrite (clauses_agree_all p fetch [] [RNode n] x). unfold run. simpl. now rewrite app_nil_r.
Qed.

(* ------------------------------------------------------------------ compositional semantics = denotation *)
Lemma find_node_in m : In m g -> in_graph g (nid m) = true.
Proof.
  unfold in_graph, find_node. intros H. destruct (find _ g) eqn:E; [reflexivity|].
  eapply find_none in E; [|exact H]. simpl in E. now rewrite String.eqb_refl in E.
Qed.

Lemma subjects_in iri id m : In m (subjects g iri id) -> In m g.
Proof. unfold subjects. rewrite filter_In. tauto. Qed.

Definition fetched (r : rv) : Prop := exists x, r = RNode x /\ in_graph g x = true.

Lemma step_fetched iri inv cur r : In r (step_from g {| s_iri := iri; s_inv := inv; s_fetch := true |} cur) -> fetched r.
Proof.
  unfold step_from. destruct cur as [id|v]; [|intros []]. destruct (find_node g id) as [nd|]; [|intros []].
  simpl. destruct inv.
  - rewrite in_map_iff. intros [m [<- Hm]]. exists (nid m). split; [reflexivity|].
    apply find_node_in. eapply subjects_in; eauto.
  - rewrite in_flat_map. intros [v [_ Hv]]. destruct v; simpl in Hv; try contradiction.
    destruct (in_graph g id0) eqn:E; simpl in Hv; [|contradiction].
    destruct Hv as [<-|[]]. exists id0. auto.
Qed.

Definition all_fetched (p : path) : Prop := forall cur r, In r (sem g p true cur) -> fetched r.

Lemma all_fetched_seq l : Forall all_fetched l -> forall cur r, In r (sem_seq true l cur) -> fetched r.
Proof.
  induction 1 as [|q r' Hq Hr IH]; intros cur r Hin; [destruct Hin|].
  destruct r' as [|q' r''].
  - eapply Hq; eauto.
  - change (sem_seq true (q :: q' :: r'') cur) with (flat_map (sem_seq true (q' :: r'')) (sem g q true cur)) in Hin.
    apply in_flat_map in Hin as [y [_ Hy]]. eapply IH; eauto.
Qed.

Lemma sem_fetched : forall p, all_fetched p.
Proof.
  induction p as [iri inv tr|l IHl|l IHl] using path_ind2; intros cur r Hin.
  - simpl in Hin. eapply step_fetched; eauto.
  - rewrite sem_And in Hin. eapply all_fetched_seq; eauto.
  - simpl in Hin. apply in_flat_map in Hin as [q [Hq Hin]]. rewrite Forall_forall in IHl. eapply IHl; eauto.
Qed.

Lemma abs_ref v x : abs v = ARef x <-> v = VRef x.
Proof. destruct v; simpl; split; intros H; try discriminate; congruence. Qed.

Definition denotes (p : path) : Prop :=
  forall n,
    (forall x, In (RNode x) (sem g p true (RNode n)) <-> (In (ARef x) (den g p n) /\ in_graph g x = true))
    /\ (forall a, In a (map erase (sem g p false (RNode n))) <-> In a (den g p n)).

Lemma denotes_pred iri inv tr : denotes (Pred iri inv tr).
Proof.
  intros n. simpl. unfold den_step. destruct (find_node g n) as [nd|] eqn:Ef; simpl.
  2:{ split; intros; simpl; tauto. }
  destruct inv; split.
  - intros x. rewrite !in_map_iff. split.
    + intros [m [E Hm]]. inversion E; subst. split; [exists m; auto|].
      apply find_node_in. eapply subjects_in; eauto.
    + intros [[m [E Hm]] _]. inversion E; subst. exists m; auto.
  - intros a. rewrite map_map. simpl. tauto.
  - intros x. rewrite in_flat_map, in_map_iff. split.
    + intros [v [Hv Hx]]. destruct v; simpl in Hx; try contradiction.
      destruct (in_graph g id) eqn:E; simpl in Hx; [|contradiction].
      destruct Hx as [Hx|[]]. inversion Hx; subst. split; [|assumption]. exists (VRef x). auto.
    + intros [[v [E Hv]] Hg]. apply abs_ref in E. subst v. exists (VRef x). split; [assumption|].
      simpl. rewrite Hg. left; reflexivity.
  - intros a. rewrite map_map. simpl. tauto.
Qed.

Lemma denotes_seq l : Forall denotes l -> forall n,
    (forall x, In (RNode x) (sem_seq true l (RNode n)) <-> (In (ARef x) (den_seq l n) /\ in_graph g x = true))
    /\ (forall a, In a (map erase (sem_seq false l (RNode n))) <-> In a (den_seq l n)).
Proof.
  induction 1 as [|q r Hq Hr IH]; intros n.
  - simpl. split; intros; tauto.
  - destruct r as [|q' r'].
    + apply Hq.
    + assert (Hstep : forall fetch (Q : rv -> Prop) (R : aval -> Prop),
                (forall x, (exists r0, In r0 (sem_seq fetch (q' :: r') (RNode x)) /\ Q r0)
                           <-> (exists a0, In a0 (den_seq (q' :: r') x) /\ R a0)) ->
                ((exists r0, In r0 (sem_seq fetch (q :: q' :: r') (RNode n)) /\ Q r0)
                 <-> (exists a0, In a0 (den_seq (q :: q' :: r') n) /\ R a0))).
      { intros fetch Q R HQR.
        change (sem_seq fetch (q :: q' :: r') (RNode n)) with (flat_map (sem_seq fetch (q' :: r')) (sem g q true (RNode n))).
        change (den_seq (q :: q' :: r') n) with
          (flat_map (fun a => match a with ARef x => if in_graph g x then den_seq (q' :: r') x else [] | ALit _ => [] end) (den g q n)).
        split.
        - intros [r0 [Hin HQ]]. apply in_flat_map in Hin as [y [Hy Hin]].
          destruct (sem_fetched q _ _ Hy) as [x [-> Hg]].
          apply (proj1 (Hq n)) in Hy as [Hy _].
          destruct (proj1 (HQR x) (ex_intro _ r0 (conj Hin HQ))) as [a0 [Ha0 HR]].
          exists a0. split; [|assumption]. apply in_flat_map. exists (ARef x). split; [assumption|].
          now rewrite Hg.
        - intros [a0 [Hin HR]]. apply in_flat_map in Hin as [a [Ha Hin]].
          destruct a as [x|v]; [|destruct Hin]. destruct (in_graph g x) eqn:Hg; [|destruct Hin].
          destruct (proj2 (HQR x) (ex_intro _ a0 (conj Hin HR))) as [r0 [Hr0 HQ]].
          exists r0. split; [|assumption]. apply in_flat_map. exists (RNode x). split; [|assumption].
          apply (proj1 (Hq n)). auto. }
      split.
      * intros x.
        pose proof (Hstep true (fun r0 => r0 = RNode x) (fun a0 => a0 = ARef x /\ in_graph g x = true)) as HS.
        assert (HQR : forall x0, (exists r0, In r0 (sem_seq true (q' :: r') (RNode x0)) /\ r0 = RNode x)
                                 <-> (exists a0, In a0 (den_seq (q' :: r') x0) /\ a0 = ARef x /\ in_graph g x = true)).
        { intros x0. destruct (IH x0) as [IH1 _]. split.
          - intros [r0 [Hin ->]]. apply IH1 in Hin as [Hd Hg]. exists (ARef x). auto.
          - intros [a0 [Hin [-> Hg]]]. exists (RNode x). split; [|reflexivity]. apply IH1. auto. }
        specialize (HS HQR). split.
        -- intros Hin. destruct (proj1 HS (ex_intro _ (RNode x) (conj Hin eq_refl))) as [a0 [Ha [-> Hg]]]. auto.
        -- intros [Hin Hg]. destruct (proj2 HS (ex_intro _ (ARef x) (conj Hin (conj eq_refl Hg)))) as [r0 [Hr0 ->]]. assumption.
      * intros a.
        pose proof (Hstep false (fun r0 => erase r0 = a) (fun a0 => a0 = a)) as HS.
        assert (HQR : forall x0, (exists r0, In r0 (sem_seq false (q' :: r') (RNode x0)) /\ erase r0 = a)
                                 <-> (exists a0, In a0 (den_seq (q' :: r') x0) /\ a0 = a)).
        { intros x0. destruct (IH x0) as [_ IH2]. split.
          - intros [r0 [Hin <-]]. exists (erase r0). split; [|reflexivity]. apply IH2. now apply in_map.
          - intros [a0 [Hin ->]]. apply IH2 in Hin. apply in_map_iff in Hin as [r0 [E Hin]]. eauto. }
        specialize (HS HQR). rewrite in_map_iff. split.
        -- intros [r0 [E Hin]]. destruct (proj1 HS (ex_intro _ r0 (conj Hin E))) as [a0 [Ha ->]]. assumption.
        -- intros Hin. destruct (proj2 HS (ex_intro _ a (conj Hin eq_refl))) as [r0 [Hr0 E]]. eauto.
Qed.

Lemma denotes_all : forall p, denotes p.
Proof.
  induction p as [iri inv tr|l IHl|l IHl] using path_ind2.
  - apply denotes_pred.
  - intros n. rewrite den_And. rewrite !sem_And. now apply denotes_seq.
  - intros n. rewrite Forall_forall in IHl. simpl. split.
    + intros x. split.
      * intros Hin. apply in_flat_map in Hin as [q [Hq Hin]].
        apply (proj1 (IHl q Hq n)) in Hin as [Hd Hg]. split; [|assumption].
        apply in_flat_map; eauto.
      * intros [Hin Hg]. apply in_flat_map in Hin as [q [Hq Hin]]. apply in_flat_map. exists q. split; [assumption|].
        apply (proj1 (IHl q Hq n)). auto.
    + intros a. rewrite in_map_iff. split.
      * intros [r0 [E Hin]]. apply in_flat_map in Hin as [q [Hq Hin]]. apply in_flat_map. exists q. split; [assumption|].
        apply (proj2 (IHl q Hq n)). subst a. now apply in_map.
      * intros Hin. apply in_flat_map in Hin as [q [Hq Hin]]. apply (proj2 (IHl q Hq n)) in Hin.
        apply in_map_iff in Hin as [r0 [E Hin]]. exists r0. split; [assumption|]. apply in_flat_map; eauto.
Qed.

(* ------------------------------------------------------------------ the statements of C02 *)
(* the values handed to a constraint are exactly the denotation (as a set, a node being its id) *)
Theorem values_denote p n a : In a (map erase (model_values g p false n)) <-> In a (den g p n).
Proof.
  rewrite <- (proj2 (denotes_all p n) a). rewrite !in_map_iff. split; intros [r [E H]]; exists r; split; auto;
    now apply model_values_sem.
Qed.

(* the nodes a nested constraint ranges over are exactly the nodes of the graph in the denotation *)
Theorem nodes_denote p n x :
  In (RNode x) (model_values g p true n) <-> (In (ARef x) (den g p n) /\ in_graph g x = true).
Proof. rewrite model_values_sem. apply (proj1 (denotes_all p n) x). Qed.

Theorem values_are_a_set p fetch n : NoDup (model_values g p fetch n).
Proof. apply dedup_NoDup. apply rv_eqb_eq. Qed.

Lemma as_string_erase r : aval_as_string (erase r) = rv_as_string r.
Proof. destruct r as [x|v]; [reflexivity|]. destruct v; reflexivity. Qed.

Theorem strings_denote p n s : In s (model_strings g p n) <-> In s (spec_strings g p n).
Proof.
  unfold model_strings, spec_strings. rewrite !(dedup_In String.eqb str_eqb_eq), !in_map_iff. split.
  - intros [r [E H]]. exists (erase r). split; [now rewrite as_string_erase|]. apply values_denote. now apply in_map.
  - intros [a [E H]]. apply values_denote in H. apply in_map_iff in H as [r [E' H]]. exists r.
    split; [|assumption]. now rewrite <- as_string_erase, E'.
Qed.

Theorem nested_nodes_denote p n x : In x (model_nodes g p n) <-> In x (spec_nodes g p n).
Proof.
  unfold model_nodes, spec_nodes. rewrite !(dedup_In String.eqb str_eqb_eq), in_map_iff, in_flat_map. split.
  - intros [r [E H]]. assert (Hf : fetched r).
    { apply model_values_sem in H. eapply sem_fetched; eauto. }
    destruct Hf as [y [-> Hg]]. simpl in E. subst y. apply nodes_denote in H as [Hd Hg'].
    exists (ARef x). split; [assumption|]. rewrite Hg'. left; reflexivity.
  - intros [a [Ha Hin]]. destruct a as [y|v]; [|destruct Hin]. destruct (in_graph g y) eqn:Hg; [|destruct Hin].
    destruct Hin as [<-|[]]. exists (RNode y). split; [reflexivity|]. apply nodes_denote. auto.
Qed.

(* counting: one value per element of the denotation, unless one node is reached both as a link object
   and as a node object (defect class D4, mixed_final) *)
Lemma abs_inj v w : abs v = abs w -> v = w.
Proof. destruct v, w; simpl; intros H; try discriminate; congruence. Qed.

Theorem count_denotes p n :
  mixed_final (model_values g p false n) = false -> model_count g p n = spec_count g p n.
Proof.
  intros Hmix. unfold model_count, spec_count, spec_values.
  set (vals := model_values g p false n) in *.
  rewrite <- (map_length erase vals). apply same_members_length.
  - apply NoDup_map_inj_in; [|apply values_are_a_set].
    intros r1 r2 H1 H2 E. destruct r1 as [x|v], r2 as [y|w]; simpl in E.
    + congruence.
    + exfalso. symmetry in E. apply abs_ref in E. subst w.
      assert (mixed_final vals = true); [|congruence].
      unfold mixed_final. apply existsb_exists. exists (RNode x). split; [assumption|].
      apply (existsb_eqb_In rv_eqb rv_eqb_eq). assumption.
    + exfalso. apply abs_ref in E. subst v.
      assert (mixed_final vals = true); [|congruence].
      unfold mixed_final. apply existsb_exists. exists (RNode y). split; [assumption|].
      apply (existsb_eqb_In rv_eqb rv_eqb_eq). assumption.
    + apply abs_inj in E. congruence.
  - apply dedup_NoDup. apply aval_eqb_eq.
  - intros a. rewrite (dedup_In aval_eqb aval_eqb_eq). apply values_denote.
Qed.

End OnGraph.

(* the unrepaired defect D4: with a forward and an inverse final step reaching the same node, the
   engine's set holds the link object and the node object: two values for one element of the denotation *)
Definition d4_graph : graph :=
  [ {| nid := "n0"; nprops := [("a", [VRef "n1"])] |};
    {| nid := "n1"; nprops := [("c", [VRef "n0"])] |} ].
Definition d4_path : path := Or [Pred "a" false false; Pred "c" true false].
Lemma count_refuted_mixed :
  model_count d4_graph d4_path "n0" = 2 /\ spec_count d4_graph d4_path "n0" = 1
  /\ mixed_final (model_values d4_graph d4_path false "n0") = true.
Proof. vm_compute. repeat split. Qed.
