(* C07 (names): no invented identifier is a reserved word of the engine, quantified variables and their
   collections never coincide, numbered names are pairwise different, the declarations of one body are
   pairwise different - for any number of constraints, nesting depth and validations. *)
From Coq Require Import DecimalString DecimalNat.
From ACV Require Import Base.Strs Model.Report Model.Names Proofs.ReportProofs.
Local Open Scope string_scope.

Lemma has_char_app p a b : has_char p (a ++ b) = has_char p a || has_char p b.
Proof. induction a as [|c a IH]; simpl; [reflexivity|]. now rewrite IH, orb_assoc. Qed.

(* a word containing an upper-case letter, a digit or an underscore is not a keyword, whenever no keyword does *)
Definition plain_lower (s : string) : bool := negb (has_char (fun c => is_upper c || is_digit c || is_underscore c) s).
Lemma not_keyword_if_marked kws s : forallb plain_lower kws = true ->
  has_char (fun c => is_upper c || is_digit c || is_underscore c) s = true -> is_keyword kws s = false.
Proof.
  intros Hk Hs. unfold is_keyword. destruct (in_strs s kws) eqn:E; [|reflexivity].
  apply in_strs_In in E. rewrite forallb_forall in Hk. specialize (Hk s E). unfold plain_lower in Hk. rewrite Hs in Hk. discriminate.
Qed.

Lemma var_name_cases n : (n < 24 /\ nth_error letters n = Some (var_name n)) \/ (24 <= n /\ var_name n = "X" ++ dec n).
Proof.
  unfold var_name. destruct (nth_error letters n) eqn:E.
  - left. split; [|reflexivity]. change 24 with (List.length letters). apply nth_error_Some. congruence.
  - right. split; [|reflexivity]. apply nth_error_None in E. exact E.
Qed.

(* C07: neither a quantified variable nor its collection is a reserved word, for every index *)
Theorem vars_not_keywords : forall kws, forallb plain_lower kws = true ->
  forallb (fun l => negb (is_keyword kws l) && negb (is_keyword kws (plural l))) letters = true ->
  forall n, is_keyword kws (var_name n) = false /\ is_keyword kws (plural (var_name n)) = false.
Proof.
  intros kws Hk Hl n. destruct (var_name_cases n) as [[Hn E]|[Hn E]].
  - rewrite forallb_forall in Hl. apply nth_error_In in E. specialize (Hl _ E).
    apply andb_prop in Hl as [H1 H2]. now apply negb_true_iff in H1, H2.
  - rewrite E. split; apply not_keyword_if_marked; auto; unfold plural; simpl; reflexivity.
Qed.

(* derived names carry an underscore or a digit *)
Theorem derived_not_keywords : forall kws, forallb plain_lower kws = true -> forall v h i,
  is_keyword kws (error_acc v i) = false /\ is_keyword kws (branch_var v i) = false /\ is_keyword kws (genvar h i) = false
  /\ is_keyword kws (result_var i) = false /\ is_keyword kws (msg_var i) = false.
Proof.
  intros kws Hk v h i. repeat split; apply not_keyword_if_marked; auto;
    unfold error_acc, branch_var, genvar, result_var, msg_var; rewrite ?has_char_app; simpl; rewrite ?orb_true_r; reflexivity.
Qed.

(* quantified variables are pairwise different *)
Lemma letters_nodup : NoDup letters.
Proof. repeat constructor; simpl; intuition discriminate. Qed.
Lemma letter_no_upper l : In l letters -> has_char is_upper l = false.
Proof. simpl. intuition (subst; reflexivity). Qed.
Theorem var_name_inj : forall n m, var_name n = var_name m -> n = m.
Proof.
  intros n m E. destruct (var_name_cases n) as [[Hn En]|[Hn En]], (var_name_cases m) as [[Hm Em]|[Hm Em]].
  - rewrite E in En. eapply NoDup_nth_error; [apply letters_nodup| |congruence]. simpl; lia.
  - exfalso. apply nth_error_In in En. apply letter_no_upper in En. rewrite E, Em in En. discriminate.
  - exfalso. apply nth_error_In in Em. apply letter_no_upper in Em. rewrite <- E, En in Em. discriminate.
  - rewrite En, Em in E. inversion E. now apply dec_inj.
Qed.
(* the collection of one variable is never another variable (or itself) *)
Theorem plural_not_var : forall n m, plural (var_name n) <> var_name m.
Proof.
  intros n m E. destruct (var_name_cases n) as [[Hn En]|[Hn En]], (var_name_cases m) as [[Hm Em]|[Hm Em]].
  - apply nth_error_In in En, Em. unfold plural in E.
    assert (Hl : forall l, In l letters -> String.length l = 1) by (simpl; intuition (subst; reflexivity)).
    apply Hl in En, Em. apply (f_equal String.length) in E. rewrite append_length in E. simpl in E. lia.
  - (* "<letter>s" = "X<n>" *) apply nth_error_In in En. apply letter_no_upper in En. rewrite Em in E. unfold plural in E.
    assert (H : has_char is_upper (var_name n ++ "s") = true) by (rewrite E; reflexivity).
    rewrite has_char_app, En in H. discriminate.
  - (* "X<n>s" = "<letter>" *) apply nth_error_In in Em. apply letter_no_upper in Em. rewrite <- E, En in Em. discriminate.
  - (* "X<n>s" = "X<m>": the left side ends in a letter, the right side in a digit *)
    rewrite En, Em in E. unfold plural in E. simpl in E. inversion E as [E'].
    assert (Hd : sall is_digit (dec n ++ "s") = true) by (rewrite E'; apply dec_digits).
    clear -Hd. induction (dec n) as [|c r IH]; simpl in Hd; [discriminate|]. apply andb_prop in Hd as [_ Hd]. auto.
Qed.
Theorem plural_inj : forall n m, plural (var_name n) = plural (var_name m) -> n = m.
Proof.
  intros n m E. apply var_name_inj. unfold plural in E.
  revert E. generalize (var_name n) (var_name m). induction s as [|c s IH]; intros [|d t] E; simpl in E; try reflexivity.
  - inversion E. destruct t; discriminate.
  - inversion E. destruct s; discriminate.
  - inversion E. f_equal. auto.
Qed.

(* numbered names: different numbers give different names whatever the hints *)
Fixpoint tail_digits (s : string) : string :=
  match s with
  | EmptyString => EmptyString
  | String c r => let t := tail_digits r in
                  if Nat.eqb (String.length t) (String.length r) && is_digit c then String c t else t
  end.
Lemma tail_digits_all d : sall is_digit d = true -> tail_digits d = d.
Proof.
  induction d as [|c r IH]; simpl; intros H; [reflexivity|]. apply andb_prop in H as [Hc Hr].
  rewrite (IH Hr), Nat.eqb_refl, Hc. reflexivity.
Qed.
Lemma tail_digits_after_underscore : forall a d, sall is_digit d = true -> tail_digits (a ++ String "_" d) = d.
Proof.
  induction a as [|c a IH]; intros d Hd; simpl.
  - rewrite (tail_digits_all d Hd), Nat.eqb_refl. reflexivity.
  - rewrite (IH d Hd). rewrite append_length. simpl.
    destruct (Nat.eqb (String.length d) (String.length a + S (String.length d))) eqn:E; [|reflexivity].
    apply Nat.eqb_eq in E. lia.
Qed.
Theorem genvar_inj : forall h h' k k', genvar h k = genvar h' k' -> k = k'.
Proof.
  intros h h' k k' E. apply dec_inj.
  assert (H : forall h k, tail_digits (genvar h k) = dec k).
  { intros h0 k0. unfold genvar. change ("_" ++ dec k0) with (String "_" (dec k0)).
    rewrite <- sappend_assoc. apply tail_digits_after_underscore, dec_digits. }
  rewrite <- (H h k), <- (H h' k'). now rewrite E.
Qed.

(* the declarations of one body *)
Lemma stem_inj stem i j : stem ++ dec i = stem ++ dec j -> i = j.
Proof. intros E. apply append_inj_l in E. now apply dec_inj. Qed.
Lemma NoDup_map_seq (f : nat -> string) k : (forall i j, f i = f j -> i = j) -> NoDup (map f (seq 0 k)).
Proof. intros H. apply NoDup_map_inj_in'; [intros a b _ _; apply H|apply seq_NoDup]. Qed.

Definition head_fresh (head : string) : Prop :=
  (forall i, head <> result_var i) /\ (forall i, head <> msg_var i) /\ head <> "message" /\ head <> "message_vars".

Theorem declared_distinct : forall k m head, head_fresh head -> NoDup (declared k m head).
Proof.
  intros k m head [Hr [Hm [H1 H2]]]. unfold declared.
  apply NoDup_app_intro; [apply NoDup_map_seq; intros i j; apply stem_inj| |].
  - apply NoDup_app_intro; [apply NoDup_map_seq; intros i j; apply stem_inj| |].
    + destruct (Nat.eqb m 0); simpl; repeat constructor; simpl; intuition (try discriminate; try congruence).
    + intros x Hx Hin. apply in_map_iff in Hx as [i [<- _]].
      destruct (Nat.eqb m 0); simpl in Hin; intuition (try discriminate). eapply Hm; eauto. eapply Hm; eauto.
  - intros x Hx Hin. apply in_map_iff in Hx as [i [<- _]]. apply in_app_or in Hin as [Hin|Hin].
    + apply in_map_iff in Hin as [j [E _]]. discriminate.
    + destruct (Nat.eqb m 0); simpl in Hin; intuition (try discriminate). eapply Hr; eauto. eapply Hr; eauto.
Qed.

Lemma matches_fresh : head_fresh "matches".
Proof. repeat split; try discriminate; intros i E; discriminate. Qed.

(* inside a nested constraint the head is <plural>_br_<i>_inner_error *)
Definition inner_error (n i : nat) : string := branch_var (plural (var_name n)) i ++ "_inner_error".
Definition third_is_g (s : string) : bool := match s with String _ (String _ (String c _)) => Ascii.eqb c "g" | _ => false end.
Definition first_is_underscore (s : string) : bool := match s with String c _ => Ascii.eqb c "_" | _ => false end.
Definition second_is_e (s : string) : bool := match s with String _ (String c _) => Ascii.eqb c "e" | _ => false end.
Lemma inner_error_shape n i : first_is_underscore (inner_error n i) = false /\ third_is_g (inner_error n i) = false /\ second_is_e (inner_error n i) = false.
Proof.
  unfold inner_error, branch_var, plural. destruct (var_name_cases n) as [[Hn E]|[Hn E]].
  - apply nth_error_In in E. simpl in E.
    repeat (destruct E as [E|E]; [rewrite <- E; simpl; repeat split; reflexivity|]). destruct E.
  - rewrite E. pose proof (dec_digits n) as Hd. destruct (dec n) as [|c r]; simpl.
    + repeat split; reflexivity.
    + simpl in Hd. apply andb_prop in Hd as [Hc Hr].
      assert (Hne : forall x, is_digit x = true -> (x =? "g")%char = false /\ (x =? "e")%char = false).
      { intros x Hx. split; (destruct (Ascii.eqb x _) eqn:Eg; [apply Ascii.eqb_eq in Eg; subst x; discriminate|reflexivity]). }
      repeat split; try reflexivity; [|apply (Hne c Hc)].
      destruct r as [|d r']; simpl; [reflexivity|]. simpl in Hr. apply andb_prop in Hr as [Hd' _]. apply (Hne d Hd').
Qed.
Lemma inner_error_fresh n i : head_fresh (inner_error n i).
Proof.
  destruct (inner_error_shape n i) as [H1 [H2 H3]]. repeat split.
  - intros j E. rewrite E in H1. discriminate.
  - intros j E. rewrite E in H2. discriminate.
  - intros E. rewrite E in H3. discriminate.
  - intros E. rewrite E in H3. discriminate.
Qed.

(* the invented names are never empty *)
Theorem names_nonempty : forall n, var_name n <> "" /\ plural (var_name n) <> "".
Proof.
  intros n. destruct (var_name_cases n) as [[Hn E]|[Hn E]].
  - apply nth_error_In in E. simpl in E. split; intros Hx; unfold plural in *;
      repeat (destruct E as [E|E]; [rewrite <- E in Hx; discriminate|]); destruct E.
  - rewrite E. split; discriminate.
Qed.

(* the fixed helper names of the snippets are never quantified variables or collections (a quantified variable
   called like a helper captures it: the repaired defect quantified-variable-captures-helper-n) *)
Theorem helpers_not_quantified : forall i, ~ In (var_name i) helper_vars /\ ~ In (plural (var_name i)) helper_vars.
Proof.
  intros i. destruct (var_name_cases i) as [[Hn E]|[Hn E]].
  - apply nth_error_In in E. simpl in E.
    repeat (destruct E as [E|E]; [rewrite <- E; unfold helper_vars, plural; simpl; split; intuition discriminate|]). destruct E.
  - rewrite E. unfold helper_vars, plural. simpl. split; intuition discriminate.
Qed.

(* ------------------------------------------------------------------ the tail of a rule body is safe *)
Lemma tail_stmts_declare k m head : map fst (tail_stmts k m head) = declared k m head.
Proof.
  unfold tail_stmts, declared. rewrite !map_app, !map_map. simpl. destruct (Nat.eqb m 0); reflexivity.
Qed.

Lemma safe_from_app env a b : safe_from env (a ++ b) = safe_from env a && safe_from (rev (map fst a) ++ env) b.
Proof.
  revert env. induction a as [|[d us] a IH]; intros env; simpl; [reflexivity|].
  rewrite IH. rewrite <- app_assoc. simpl. now rewrite andb_assoc.
Qed.
Lemma safe_no_reads env (f : nat -> string) l : safe_from env (map (fun i => (f i, [])) l) = true.
Proof. revert env. induction l as [|i l IH]; intros env; simpl; auto. Qed.
Lemma in_env x (l pre post : list string) : In x l -> in_strs x (pre ++ rev l ++ post) = true.
Proof.
  intros H. unfold in_strs. apply existsb_exists. exists x. split; [|apply String.eqb_refl].
  apply in_or_app. right. apply in_or_app. left. now apply -> in_rev.
Qed.
Lemma all_in_env (l pre post : list string) : forallb (fun u => in_strs u (pre ++ rev l ++ post)) l = true.
Proof. apply forallb_forall. intros u Hu. now apply in_env. Qed.

(* every variable the tail of a rule body reads has been bound by an earlier statement of that tail, for any number of
   constraints and message placeholders (an unbound msg_var_i / _result_i makes the engine reject the module as unsafe) *)
Theorem tail_stmts_safe : forall k m head, safe_from [] (tail_stmts k m head) = true.
Proof.
  intros k m head. unfold tail_stmts. rewrite !safe_from_app, !safe_no_reads. rewrite !map_map. simpl (map (fun x => fst _) _).
  set (R := map result_var (seq 0 k)). set (M := map msg_var (seq 0 m)).
  change (map (fun x : nat => result_var x) (seq 0 k)) with R. change (map (fun x : nat => msg_var x) (seq 0 m)) with M.
  destruct (Nat.eqb m 0) eqn:Em; cbn [map fst rev app safe_from forallb andb].
  - apply andb_true_intro; split; [apply andb_true_intro; split|reflexivity].
    + reflexivity.
    + exact (all_in_env R ("message" :: rev M) []).
  - pose proof (all_in_env M [] (rev R ++ [])) as H1.
    pose proof (all_in_env R ("message" :: "message_vars" :: rev M) []) as H2.
    apply andb_true_intro; split.
    { apply andb_true_intro; split; [exact H1|reflexivity]. }
    apply andb_true_intro; split; [reflexivity|].
    apply andb_true_intro; split; [apply andb_true_intro; split; [reflexivity|exact H2]|reflexivity].
Qed.
