(* C13: profile text is data.  The escaping helper is inverted by the engine's string scanner for EVERY
   byte string (so the pasted text is exactly one literal and denotes exactly what was written), and the
   message pipeline (placeholders -> sprintf format -> literal -> scanner -> sprintf) renders the message as
   written with the placeholders substituted, for every message and every value assignment. *)
From ACV Require Import Base.Strs Model.Escape.
Local Open Scope string_scope.

(* one character: scanning its escaped form yields it back (all 256 byte values) *)
Lemma scan_char : forall c tail fuel,
  scan_literal (S fuel) (escape_char c ++ tail) =
  match scan_literal fuel tail with Some (t, z) => Some (String c t, z) | None => None end.
Proof.
  intros c tail fuel. destruct c as [[] [] [] [] [] [] [] []]; cbn; try reflexivity; destruct fuel; try reflexivity.
Qed.

(* the whole text: whatever follows the closing quote is left alone - nothing of s can end the literal early *)
Theorem scan_escape : forall s rest fuel, String.length s < fuel ->
  scan_literal fuel (escape s ++ String """" rest) = Some (s, rest).
Proof.
  induction s as [|c s IH]; intros rest fuel Hf; simpl.
  - destruct fuel; [lia|]. reflexivity.
  - destruct fuel; [simpl in Hf; lia|]. rewrite sappend_assoc, scan_char. rewrite IH by (simpl in Hf; lia). reflexivity.
Qed.

Lemma escape_length s : String.length s <= String.length (escape s).
Proof.
  induction s as [|c s IH]; simpl; [lia|]. rewrite append_length.
  assert (1 <= String.length (escape_char c)) by (destruct c as [[] [] [] [] [] [] [] []]; vm_compute; lia). lia.
Qed.

(* ------------------------------------------------------------------ placeholders *)
Lemma span_app p s : forall a b, span p s = (a, b) -> s = a ++ b.
Proof.
  induction s as [|c r IH]; simpl; intros a b E.
  - inversion E. reflexivity.
  - destruct (p c).
    + destruct (span p r) as [a' b'] eqn:Es. inversion E; subst. simpl. f_equal. now apply IH.
    + inversion E. reflexivity.
Qed.
Lemma span_rest_le p s a b : span p s = (a, b) -> String.length b <= String.length s.
Proof. intros E. apply span_app in E. subst s. rewrite append_length. lia. Qed.

Lemma match_placeholder_shorter s v rest : match_placeholder s = Some (v, rest) -> String.length rest < String.length s.
Proof.
  unfold match_placeholder. destruct s as [|c1 [|c2 r]]; try discriminate.
  destruct (Ascii.eqb c1 "{" && Ascii.eqb c2 "{"); [|discriminate].
  destruct (span is_space r) as [w1 r1] eqn:E1. destruct (span is_word r1) as [a r2] eqn:E2.
  destruct a as [|a0 a']; try discriminate. destruct r2 as [|d r3]; try discriminate.
  destruct (Ascii.eqb d "."); [|discriminate].
  destruct (span is_word r3) as [b r4] eqn:E3. destruct b as [|b0 b']; try discriminate.
  destruct (span is_space r4) as [w2 r5] eqn:E4.
  destruct r5 as [|e1 [|e2 r6]]; try discriminate.
  destruct (Ascii.eqb e1 "}" && Ascii.eqb e2 "}"); [|discriminate].
  intros E. inversion E; subst.
  apply span_rest_le in E1, E2, E3, E4. simpl in *. lia.
Qed.

(* ------------------------------------------------------------------ sprintf over a format *)
Definition q2a (c : ascii) : ascii := if Ascii.eqb c """" then "'"%char else c.
Definition q2a_seg (x : seg) : seg := match x with Lit c => Lit (q2a c) | Var v => Var v end.

Lemma q2a_format l : quote_to_apostrophe (format_of l) = format_of (map q2a_seg l).
Proof.
  induction l as [|x l IH]; simpl; [reflexivity|]. destruct x as [c|v]; simpl.
  - destruct (Ascii.eqb c "%") eqn:E.
    + apply Ascii.eqb_eq in E. subst c. simpl. now rewrite IH.
    + simpl. rewrite IH. unfold q2a. destruct (Ascii.eqb c """") eqn:Eq; [reflexivity|]. now rewrite E.
  - now rewrite IH.
Qed.

Definition subst (f : string -> string) (l : list seg) : string :=
  fold_right (fun x acc => match x with Lit c => String c acc | Var v => f v ++ acc end) "" l.

Lemma format_length_ge l : List.length l <= String.length (format_of l).
Proof.
  induction l as [|x l IH]; simpl; [lia|]. destruct x as [c|v]; simpl; [destruct (Ascii.eqb c "%"); simpl; lia|lia].
Qed.

Lemma sprintf_format : forall l f fuel, String.length (format_of l) < fuel ->
  sprintf_v fuel (format_of l) (map f (vars_of l)) = subst f l.
Proof.
  induction l as [|x l IH]; intros f fuel Hf.
  - destruct fuel; [simpl in Hf; lia|]. reflexivity.
  - destruct x as [c|v].
    + simpl format_of in *. destruct (Ascii.eqb c "%") eqn:E.
      * apply Ascii.eqb_eq in E. subst c. destruct fuel; [simpl in Hf; lia|]. simpl.
        f_equal. apply IH. simpl in Hf. lia.
      * destruct fuel; [simpl in Hf; lia|].
        assert (Hs : sprintf_v (S fuel) (String c (format_of l)) (map f (vars_of (Lit c :: l)))
                     = String c (sprintf_v fuel (format_of l) (map f (vars_of l)))).
        { simpl. destruct c as [[] [] [] [] [] [] [] []]; try reflexivity. discriminate. }
        rewrite Hs. simpl. f_equal. apply IH. simpl in Hf. lia.
    + simpl format_of in *. destruct fuel; [simpl in Hf; lia|]. simpl. f_equal. apply IH. simpl in Hf. lia.
Qed.

Lemma subst_q2a f l : subst f (map q2a_seg l) =
  fold_right (fun x acc => match x with Lit c => String (if Ascii.eqb c """" then "'"%char else c) acc | Var v => f v ++ acc end) "" l.
Proof. induction l as [|x l IH]; simpl; [reflexivity|]. destruct x; simpl; now rewrite IH. Qed.

Lemma vars_q2a l : vars_of (map q2a_seg l) = vars_of l.
Proof. induction l as [|x l IH]; simpl; [reflexivity|]. destruct x; simpl; now rewrite IH. Qed.

(* without a placeholder the segments are the characters of the message *)
Lemma segments_no_var : forall fuel s, String.length s < fuel -> has_var (segments fuel s) = false ->
  subst (fun _ => "") (segments fuel s) = s.
Proof.
  induction fuel as [|fuel IH]; intros s Hf Hv; [lia|]. destruct s as [|c r]; [reflexivity|].
  cbn [segments] in *. destruct (match_placeholder (String c r)) as [[v rest]|] eqn:E.
  - simpl in Hv. discriminate.
  - simpl in *. f_equal. apply IH; [lia|assumption].
Qed.
Lemma subst_lits f l : has_var l = false -> subst f l = subst (fun _ => "") l.
Proof.
  induction l as [|x l IH]; simpl; [reflexivity|]. destruct x; simpl; [intros; f_equal; auto|discriminate].
Qed.
Lemma q2a_subst_lits l : has_var l = false ->
  quote_to_apostrophe (subst (fun _ => "") l) = subst (fun _ => "") (map q2a_seg l).
Proof.
  induction l as [|x l IH]; simpl; [reflexivity|]. destruct x; simpl; [intros H; now rewrite IH|discriminate].
Qed.
Lemma has_var_q2a l : has_var (map q2a_seg l) = has_var l.
Proof. induction l as [|x l IH]; simpl; [reflexivity|]. destruct x; simpl; auto. Qed.

Lemma q2a_length s : String.length (quote_to_apostrophe s) = String.length s.
Proof. induction s; simpl; auto. Qed.

(* the message theorem: for every message text and every assignment of values to its placeholders, what the
   engine computes from the generated lines is the message as written with the placeholders replaced and
   double quotes shown as single quotes - percent signs, backslashes, braces, newlines included *)
Theorem message_rendered : forall m value_of, rendered m value_of = Some (display m value_of).
Proof.
  intros m value_of. unfold rendered, paste_message.
  rewrite scan_escape by (pose proof (escape_length (quote_to_apostrophe (message_expression m))); lia).
  unfold display, message_variables, message_expression.
  set (l := segments (S (String.length m)) m).
  destruct (has_var l) eqn:Hv.
  - rewrite q2a_format. rewrite <- (vars_q2a l). rewrite sprintf_format by lia. f_equal. apply subst_q2a.
  - f_equal. rewrite <- subst_q2a.
    rewrite (subst_lits value_of (map q2a_seg l)) by (now rewrite has_var_q2a).
    rewrite <- q2a_subst_lits by assumption. f_equal. symmetry. apply segments_no_var; [lia|assumption].
Qed.

(* names: the literal denotes the name verbatim and nothing of the name escapes the literal *)
Theorem name_verbatim : forall s rest, scan_literal (S (String.length s)) (paste_name s ++ String """" rest) = Some (s, rest).
Proof. intros. apply scan_escape. lia. Qed.

(* the package name is a Rego identifier whatever the profile is called *)
Fixpoint all_ident (s : string) : bool := match s with EmptyString => true | String c r => ident_char c && all_ident r end.
Lemma sanitize_ident : forall s b, all_ident (sanitize b s) = true.
Proof.
  induction s as [|c s IH]; intros b; simpl; [reflexivity|].
  destruct (is_alnum c) eqn:Ea.
  - simpl. rewrite IH, andb_true_r. clear IH. destruct c as [[] [] [] [] [] [] [] []]; try discriminate; reflexivity.
  - destruct b; simpl; [apply IH|]. now rewrite IH.
Qed.
Theorem package_name_is_identifier : forall s, all_ident (package_name s) = true.
Proof. intros s. unfold package_name. simpl. apply sanitize_ident. Qed.

(* the defects repaired by the two fix: commits, on the code as it was *)
Definition old_sanitized (s : string) : string :=          (* "\n" -> "\\n", double quote -> apostrophe, nothing else *)
  (fix go s := match s with
               | EmptyString => EmptyString
               | String c r => if Ascii.eqb c "010" then String "\" (String "n" (go r))
                               else String (if Ascii.eqb c """" then "'"%char else c) (go r)
               end) s.
Theorem refuted_before_fix_backslash :
  scan_literal 10 (old_sanitized "a\d" ++ """") = None.
Proof. vm_compute. reflexivity. Qed.

(* ------------------------------------------------------------------ patterns and value lists *)
Lemma scan_raw_verbatim : forall p rest, has_backtick p = false -> scan_raw (p ++ String "`" rest) = Some (p, rest).
Proof.
  induction p as [|c p IH]; simpl; intros rest H; [reflexivity|].
  apply orb_false_iff in H as [Hc Hp]. rewrite Hc. now rewrite (IH rest Hp).
Qed.

(* every regular expression, with or without backticks, quotes, backslashes or newlines, is read back by the engine as
   exactly that text, and the code after the literal is untouched *)
Theorem pattern_literal_verbatim : forall p rest,
  scan_string_term (S (String.length p)) (pattern_literal p ++ rest) = Some (p, rest).
Proof.
  intros p rest. unfold pattern_literal. destruct (has_backtick p) eqn:E.
  - assert (H : (String """" (escape p ++ """") ++ rest)%string = String """" (escape p ++ String """" rest)).
    { simpl. f_equal. rewrite sappend_assoc. reflexivity. }
    rewrite H. unfold scan_string_term. change (Ascii.eqb """" "`") with false. cbv iota. rewrite Ascii.eqb_refl.
    apply scan_escape. lia.
  - assert (H : (String "`" (p ++ "`") ++ rest)%string = String "`" (p ++ String "`" rest)).
    { simpl. f_equal. rewrite sappend_assoc. reflexivity. }
    rewrite H. unfold scan_string_term. rewrite Ascii.eqb_refl. now apply scan_raw_verbatim.
Qed.
(* before the repair a pattern with a backtick ended its own literal early *)
Lemma pattern_refuted_before_fix : scan_raw ("x`y" ++ String "`" ",v)") = Some ("x", "y`,v)").
Proof. reflexivity. Qed.

(* the literal written for a value list is always a set, never the empty object *)
Theorem string_set_is_a_set : forall l, classify_collection (string_set_literal l) = KSet.
Proof.
  intros [|x r]; [reflexivity|]. unfold string_set_literal. destruct r; reflexivity.
Qed.
Lemma empty_braces_are_an_object : classify_collection "{ }" = KObject /\ classify_collection "{}" = KObject.
Proof. split; reflexivity. Qed.

(* every list of values - whatever the texts contain - is read back element by element as exactly those texts, and the
   code after the last element is untouched *)
Lemma scan_elements_step fuel n r :
  scan_elements fuel (S (S n)) (String """" r) =
  match scan_literal fuel r with
  | Some (x, String "," rest') => match scan_elements fuel (S n) rest' with Some (l, z) => Some (x :: l, z) | None => None end
  | _ => None
  end.
Proof. cbn [scan_elements]. destruct (scan_literal fuel r) as [[x rest]|]; [|reflexivity]. destruct rest as [|c rest']; [reflexivity|]. destruct c as [[] [] [] [] [] [] [] []]; reflexivity. Qed.

Theorem list_values_verbatim : forall l fuel rest, l <> [] -> max_length l < fuel ->
  scan_elements fuel (List.length l) (join_quoted l ++ rest) = Some (l, rest).
Proof.
  induction l as [|x r IH]; intros fuel rest Hne Hf; [congruence|].
  destruct r as [|y r'].
  - cbn [join_quoted List.length scan_elements]. cbn [append].
    replace ((escape x ++ """") ++ rest) with (escape x ++ String """" rest) by (rewrite sappend_assoc; reflexivity).
    rewrite scan_escape by (simpl in Hf; lia). reflexivity.
  - assert (E : join_quoted (x :: y :: r') = String """" (escape x ++ """") ++ "," ++ join_quoted (y :: r')) by reflexivity.
    rewrite E. change (List.length (x :: y :: r')) with (S (S (List.length r'))).
    assert (H : ((String """" (escape x ++ """") ++ "," ++ join_quoted (y :: r')) ++ rest)%string
              = String """" (escape x ++ String """" (String "," (join_quoted (y :: r') ++ rest)))).
    { simpl. f_equal. rewrite !sappend_assoc. reflexivity. }
    rewrite H. rewrite scan_elements_step. rewrite scan_escape by (simpl in Hf; lia).
    assert (IH' := IH fuel rest (fun Hn => ltac:(discriminate Hn))).
    change (List.length (y :: r')) with (S (List.length r')) in IH'.
    rewrite IH' by (simpl in *; lia). reflexivity.
Qed.
