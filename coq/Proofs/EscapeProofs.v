(* C13: profile text is data.  The escaping helper is inverted by the engine's string scanner for EVERY
   byte string (so the pasted text is exactly one literal and denotes exactly what was written), and the
   message pipeline (placeholders -> sprintf format -> literal -> scanner -> sprintf) renders the message as
   written with the placeholders substituted, for every message and every value assignment. *)
From ACV Require Import Base.Strs Model.Escape.
Local Open Scope string_scope.

(* one character other than 0xEF: scanning its escaped form yields it back (255 byte values) *)
Lemma scan_char : forall c tail fuel, byte c <> 239 ->
  scan_literal (S fuel) (escape_char c ++ tail) =
  match scan_literal fuel tail with Some (t, z) => Some (String c t, z) | None => None end.
Proof.
  intros c tail fuel Hc. destruct c as [[] [] [] [] [] [] [] []]; try (exfalso; apply Hc; reflexivity); cbn; try reflexivity; destruct fuel; try reflexivity.
Qed.
Lemma byte_eq c n : byte c = n -> c = chr n.
Proof. intros H. rewrite <- H. unfold chr, byte. now rewrite ascii_nat_embedding. Qed.
(* the byte 0xEF where no byte-order mark starts *)
Lemma scan_ef : forall c tail fuel, byte c = 239 -> starts_with_bom (String c tail) = false ->
  scan_literal (S fuel) (String c tail) =
  match scan_literal fuel tail with Some (t, z) => Some (String c t, z) | None => None end.
Proof.
  intros c tail fuel Hc Hb. cbn [scan_literal]. rewrite Hb.
  apply byte_eq in Hc. subst c. reflexivity.
Qed.

Lemma escape_char_ef c : byte c = 239 -> escape_char c = String c "".
Proof. intros Hc. apply byte_eq in Hc. subst c. reflexivity. Qed.

(* the unfolding of [escape] *)
Lemma escape_cons c1 r1 :
  escape (String c1 r1) =
  if starts_with_bom (String c1 r1) then bom_escape ++ escape (sdrop 2 r1) else escape_char c1 ++ escape r1.
Proof.
  cbn [escape starts_with_bom]. destruct r1 as [|c2 [|c3 r3]].
  - destruct (Nat.eqb (byte c1) 239); reflexivity.
  - destruct (Nat.eqb (byte c1) 239); [destruct (Nat.eqb (byte c2) 187)|]; reflexivity.
  - unfold is_bom. cbn [sdrop]. destruct (Nat.eqb (byte c1) 239); [destruct (Nat.eqb (byte c2) 187)|]; reflexivity.
Qed.

(* the first byte of an escaped text: a byte >= 0x80 can only stand for itself *)
Definition head (s : string) : option ascii := match s with String c _ => Some c | EmptyString => None end.
Lemma head_escape_char c : head (escape_char c) = Some c \/ head (escape_char c) = Some "\"%char.
Proof. destruct c as [[] [] [] [] [] [] [] []]; cbn; auto. Qed.
Lemma head_app a b : head (a ++ b) = match head a with Some c => Some c | None => head b end.
Proof. destruct a; reflexivity. Qed.
Lemma escape_char_nonempty c : head (escape_char c) <> None.
Proof. destruct (head_escape_char c) as [H|H]; rewrite H; discriminate. Qed.
Lemma head_escape r q d : 128 <= byte d -> head (escape r ++ q) = Some d ->
  (r = "" /\ head q = Some d) \/ (exists r', r = String d r' /\ starts_with_bom r = false).
Proof.
  intros Hd H. destruct r as [|c r']; [left; split; [reflexivity|exact H]|]. right.
  rewrite escape_cons in H. destruct (starts_with_bom (String c r')) eqn:Eb.
  - cbn in H. inversion H; subst d. cbn in Hd. lia.
  - rewrite sappend_assoc, head_app in H. destruct (head_escape_char c) as [Hc|Hc]; rewrite Hc in H; inversion H; subst.
    + exists r'. split; reflexivity || exact Eb.
    + cbn in Hd. lia.
Qed.

(* no raw byte-order mark at the beginning of what is left to scan, at any position *)
Lemma no_bom_ahead s rest : starts_with_bom (escape s ++ String """" rest) = false.
Proof.
  destruct s as [|c1 r1]; [reflexivity|]. rewrite escape_cons. destruct (starts_with_bom (String c1 r1)) eqn:Eb; [reflexivity|].
  destruct (Nat.eq_dec (byte c1) 239) as [Hc|Hc].
  - rewrite (escape_char_ef c1 Hc). cbn [append starts_with_bom]. rewrite Hc. cbn [Nat.eqb].
    change (Nat.eqb 239 239) with true. cbv iota.
    destruct (escape r1 ++ String """" rest) as [|b t] eqn:E1; [reflexivity|].
    destruct (Nat.eqb (byte b) 187) eqn:Hb; [|reflexivity]. apply Nat.eqb_eq in Hb.
    assert (H1 : head (escape r1 ++ String """" rest) = Some b) by (rewrite E1; reflexivity).
    apply head_escape in H1; [|lia]. destruct H1 as [[-> Hq]|[r' [-> Hnb]]].
    { cbn in Hq. inversion Hq; subst b. vm_compute in Hb. congruence. }
    rewrite escape_cons, Hnb in E1. rewrite sappend_assoc in E1.
    assert (Hec : escape_char b = String b "").
    { apply byte_eq in Hb. subst b. reflexivity. }
    rewrite Hec in E1. cbn [append] in E1. inversion E1; subst t.
    destruct (escape r' ++ String """" rest) as [|b2 t2] eqn:E2; [reflexivity|].
    destruct (Nat.eqb (byte b2) 191) eqn:Hb2; [|reflexivity]. apply Nat.eqb_eq in Hb2.
    assert (H2 : head (escape r' ++ String """" rest) = Some b2) by (rewrite E2; reflexivity).
    apply head_escape in H2; [|lia]. destruct H2 as [[-> Hq]|[r'' [-> _]]].
    { cbn in Hq. inversion Hq; subst b2. vm_compute in Hb2. congruence. }
    (* then the text began with EF BB BF *)
    cbn [starts_with_bom] in Eb. rewrite Hc, Hb, Hb2 in Eb. cbn in Eb. discriminate.
  - rewrite sappend_assoc. destruct (head_escape_char c1) as [Hh|Hh].
    + destruct (escape_char c1) as [|h t] eqn:Ee; [discriminate|]. cbn in Hh. inversion Hh; subst h.
      cbn [append starts_with_bom]. apply Nat.eqb_neq in Hc. rewrite Hc. reflexivity.
    + destruct (escape_char c1) as [|h t] eqn:Ee; [discriminate|]. cbn in Hh. inversion Hh; subst h. reflexivity.
Qed.

(* the whole text: whatever follows the closing quote is left alone - nothing of s can end the literal early *)
Theorem scan_escape : forall s rest fuel, String.length s < fuel ->
  scan_literal fuel (escape s ++ String """" rest) = Some (s, rest).
Proof.
  intros s. remember (String.length s) as n eqn:Hn. revert s Hn.
  induction n as [n IH] using lt_wf_ind. intros s Hn rest fuel Hf. subst n.
  destruct s as [|c1 r1].
  - destruct fuel; [cbn in Hf; lia|]. reflexivity.
  - destruct fuel; [cbn in Hf; lia|]. rewrite escape_cons. destruct (starts_with_bom (String c1 r1)) eqn:Eb.
    + (* a byte-order mark: six characters, one step *)
      cbn [starts_with_bom] in Eb.
      destruct (Nat.eqb (byte c1) 239) eqn:H1; [|discriminate]. destruct r1 as [|c2 r2]; [discriminate|].
      destruct (Nat.eqb (byte c2) 187) eqn:H2; [|discriminate]. destruct r2 as [|c3 r3]; [discriminate|].
      apply Nat.eqb_eq in H1, H2, Eb. cbn [sdrop].
      assert (E1 : c1 = chr 239) by (rewrite <- H1; unfold chr, byte; now rewrite ascii_nat_embedding).
      assert (E2 : c2 = chr 187) by (rewrite <- H2; unfold chr, byte; now rewrite ascii_nat_embedding).
      assert (E3 : c3 = chr 191) by (rewrite <- Eb; unfold chr, byte; now rewrite ascii_nat_embedding).
      subst c1 c2 c3. unfold bom_escape. cbn [append scan_literal starts_with_bom byte]. cbn.
      rewrite (IH (String.length r3)); [reflexivity|cbn; lia|reflexivity|cbn in Hf; lia].
    + pose proof (no_bom_ahead r1 rest) as Hnb.
      destruct (Nat.eq_dec (byte c1) 239) as [Hc|Hc].
      * rewrite (escape_char_ef c1 Hc). cbn [append]. rewrite scan_ef; [|exact Hc|].
        -- rewrite (IH (String.length r1)); [reflexivity|cbn; lia|reflexivity|cbn in Hf; lia].
        -- pose proof (no_bom_ahead (String c1 r1) rest) as H. rewrite escape_cons, Eb, (escape_char_ef c1 Hc) in H. exact H.
      * rewrite sappend_assoc, scan_char by exact Hc.
        rewrite (IH (String.length r1)); [reflexivity|cbn; lia|reflexivity|cbn in Hf; lia].
Qed.

Lemma escape_length s : String.length s <= String.length (escape s).
Proof.
  remember (String.length s) as n eqn:Hn. revert s Hn. induction n as [n IH] using lt_wf_ind. intros s Hn. subst n.
  destruct s as [|c1 r1]; [cbn; lia|]. rewrite escape_cons. destruct (starts_with_bom (String c1 r1)) eqn:Eb.
  - cbn [starts_with_bom] in Eb. destruct (Nat.eqb (byte c1) 239); [|discriminate]. destruct r1 as [|c2 r2]; [discriminate|].
    destruct (Nat.eqb (byte c2) 187); [|discriminate]. destruct r2 as [|c3 r3]; [discriminate|]. cbn [sdrop].
    rewrite append_length. pose proof (IH (String.length r3) ltac:(cbn; lia) r3 eq_refl). cbn in *. lia.
  - rewrite append_length. pose proof (IH (String.length r1) ltac:(cbn; lia) r1 eq_refl).
    assert (1 <= String.length (escape_char c1)) by (destruct c1 as [[] [] [] [] [] [] [] []]; vm_compute; lia). cbn. lia.
Qed.

(* ------------------------------------------------------------------ placeholders *)
Lemma span_app p s : forall a b, span p s = (a, b) -> s = a ++ b.
Proof.
  induction s as [|c r IH]; simpl; intros a b E.
  - inversion E. reflexivity.
  - destruct (p c).
    + destruct (span p r) as [a' b'] eqn:Es. inversion E; subst. simpl. f_equal. now apply IH.
    + inversion E. reflexivity.
Qed.
Lemma span_rest_le p s a b : span p s = (a, b) -> String.length b <= String.length s.
Proof. intros E. apply span_app in E. subst s. rewrite append_length. lia. Qed.

Lemma match_placeholder_shorter s v rest : match_placeholder s = Some (v, rest) -> String.length rest < String.length s.
Proof.
  unfold match_placeholder. destruct s as [|c1 [|c2 r]]; try discriminate.
  destruct (Ascii.eqb c1 "{" && Ascii.eqb c2 "{"); [|discriminate].
  destruct (span is_space r) as [w1 r1] eqn:E1. destruct (span is_word r1) as [a r2] eqn:E2.
  destruct a as [|a0 a']; try discriminate. destruct r2 as [|d r3]; try discriminate.
  destruct (Ascii.eqb d "."); [|discriminate].
  destruct (span is_word r3) as [b r4] eqn:E3. destruct b as [|b0 b']; try discriminate.
  destruct (span is_space r4) as [w2 r5] eqn:E4.
  destruct r5 as [|e1 [|e2 r6]]; try discriminate.
  destruct (Ascii.eqb e1 "}" && Ascii.eqb e2 "}"); [|discriminate].
  intros E. inversion E; subst.
  apply span_rest_le in E1, E2, E3, E4. simpl in *. lia.
Qed.

(* ------------------------------------------------------------------ sprintf over a format *)
Definition q2a (c : ascii) : ascii := if Ascii.eqb c """" then "'"%char else c.
Definition q2a_seg (x : seg) : seg := match x with Lit c => Lit (q2a c) | Var v => Var v end.

Lemma q2a_format l : quote_to_apostrophe (format_of l) = format_of (map q2a_seg l).
Proof.
  induction l as [|x l IH]; simpl; [reflexivity|]. destruct x as [c|v]; simpl.
  - destruct (Ascii.eqb c "%") eqn:E.
    + apply Ascii.eqb_eq in E. subst c. simpl. now rewrite IH.
    + simpl. rewrite IH. unfold q2a. destruct (Ascii.eqb c """") eqn:Eq; [reflexivity|]. now rewrite E.
  - now rewrite IH.
Qed.

Definition subst (f : string -> string) (l : list seg) : string :=
  fold_right (fun x acc => match x with Lit c => String c acc | Var v => f v ++ acc end) "" l.

Lemma format_length_ge l : List.length l <= String.length (format_of l).
Proof.
  induction l as [|x l IH]; simpl; [lia|]. destruct x as [c|v]; simpl; [destruct (Ascii.eqb c "%"); simpl; lia|lia].
Qed.

Lemma sprintf_format : forall l f fuel, String.length (format_of l) < fuel ->
  sprintf_v fuel (format_of l) (map f (vars_of l)) = subst f l.
Proof.
  induction l as [|x l IH]; intros f fuel Hf.
  - destruct fuel; [simpl in Hf; lia|]. reflexivity.
  - destruct x as [c|v].
    + simpl format_of in *. destruct (Ascii.eqb c "%") eqn:E.
      * apply Ascii.eqb_eq in E. subst c. destruct fuel; [simpl in Hf; lia|]. simpl.
        f_equal. apply IH. simpl in Hf. lia.
      * destruct fuel; [simpl in Hf; lia|].
        assert (Hs : sprintf_v (S fuel) (String c (format_of l)) (map f (vars_of (Lit c :: l)))
                     = String c (sprintf_v fuel (format_of l) (map f (vars_of l)))).
        { simpl. destruct c as [[] [] [] [] [] [] [] []]; try reflexivity. discriminate. }
        rewrite Hs. simpl. f_equal. apply IH. simpl in Hf. lia.
    + simpl format_of in *. destruct fuel; [simpl in Hf; lia|]. simpl. f_equal. apply IH. simpl in Hf. lia.
Qed.

Lemma subst_q2a f l : subst f (map q2a_seg l) =
  fold_right (fun x acc => match x with Lit c => String (if Ascii.eqb c """" then "'"%char else c) acc | Var v => f v ++ acc end) "" l.
Proof. induction l as [|x l IH]; simpl; [reflexivity|]. destruct x; simpl; now rewrite IH. Qed.

Lemma vars_q2a l : vars_of (map q2a_seg l) = vars_of l.
Proof. induction l as [|x l IH]; simpl; [reflexivity|]. destruct x; simpl; now rewrite IH. Qed.

(* without a placeholder the segments are the characters of the message *)
Lemma segments_no_var : forall fuel s, String.length s < fuel -> has_var (segments fuel s) = false ->
  subst (fun _ => "") (segments fuel s) = s.
Proof.
  induction fuel as [|fuel IH]; intros s Hf Hv; [lia|]. destruct s as [|c r]; [reflexivity|].
  cbn [segments] in *. destruct (match_placeholder (String c r)) as [[v rest]|] eqn:E.
  - simpl in Hv. discriminate.
  - simpl in *. f_equal. apply IH; [lia|assumption].
Qed.
Lemma subst_lits f l : has_var l = false -> subst f l = subst (fun _ => "") l.
Proof.
  induction l as [|x l IH]; simpl; [reflexivity|]. destruct x; simpl; [intros; f_equal; auto|discriminate].
Qed.
Lemma q2a_subst_lits l : has_var l = false ->
  quote_to_apostrophe (subst (fun _ => "") l) = subst (fun _ => "") (map q2a_seg l).
Proof.
  induction l as [|x l IH]; simpl; [reflexivity|]. destruct x; simpl; [intros H; now rewrite IH|discriminate].
Qed.
Lemma has_var_q2a l : has_var (map q2a_seg l) = has_var l.
Proof. induction l as [|x l IH]; simpl; [reflexivity|]. destruct x; simpl; auto. Qed.

Lemma q2a_length s : String.length (quote_to_apostrophe s) = String.length s.
Proof. induction s; simpl; auto. Qed.

(* the message theorem: for every message text and every assignment of values to its placeholders, what the
   engine computes from the generated lines is the message as written with the placeholders replaced and
   double quotes shown as single quotes - percent signs, backslashes, braces, newlines included *)
Theorem message_rendered : forall m value_of, rendered m value_of = Some (display m value_of).
Proof.
  intros m value_of. unfold rendered, paste_message.
  rewrite scan_escape by (pose proof (escape_length (quote_to_apostrophe (message_expression m))); lia).
  unfold display, message_variables, message_expression.
  set (l := segments (S (String.length m)) m).
  destruct (has_var l) eqn:Hv.
  - rewrite q2a_format. rewrite <- (vars_q2a l). rewrite sprintf_format by lia. f_equal. apply subst_q2a.
  - f_equal. rewrite <- subst_q2a.
    rewrite (subst_lits value_of (map q2a_seg l)) by (now rewrite has_var_q2a).
    rewrite <- q2a_subst_lits by assumption. f_equal. symmetry. apply segments_no_var; [lia|assumption].
Qed.

(* names: the literal denotes the name verbatim and nothing of the name escapes the literal *)
Theorem name_verbatim : forall s rest, scan_literal (S (String.length s)) (paste_name s ++ String """" rest) = Some (s, rest).
Proof. intros. apply scan_escape. lia. Qed.

(* the package name is a Rego identifier whatever the profile is called *)
Fixpoint all_ident (s : string) : bool := match s with EmptyString => true | String c r => ident_char c && all_ident r end.
Lemma sanitize_ident : forall s b, all_ident (sanitize b s) = true.
Proof.
  induction s as [|c s IH]; intros b; simpl; [reflexivity|].
  destruct (is_alnum c) eqn:Ea.
  - simpl. rewrite IH, andb_true_r. clear IH. destruct c as [[] [] [] [] [] [] [] []]; try discriminate; reflexivity.
  - destruct b; simpl; [apply IH|]. now rewrite IH.
Qed.
Theorem package_name_is_identifier : forall s, all_ident (package_name s) = true.
Proof. intros s. unfold package_name. simpl. apply sanitize_ident. Qed.

(* the defects repaired by the two fix: commits, on the code as it was *)
Definition old_sanitized (s : string) : string :=          (* "\n" -> "\\n", double quote -> apostrophe, nothing else *)
  (fix go s := match s with
               | EmptyString => EmptyString
               | String c r => if Ascii.eqb c "010" then String "\" (String "n" (go r))
                               else String (if Ascii.eqb c """" then "'"%char else c) (go r)
               end) s.
Theorem refuted_before_fix_backslash :
  scan_literal 10 (old_sanitized "a\d" ++ """") = None.
Proof. vm_compute. reflexivity. Qed.

(* ------------------------------------------------------------------ patterns and value lists *)
(* no byte-order mark in p: none starts at the beginning of p followed by a backtick either *)
Lemma no_bom_before_backtick p rest : has_bom p = false -> starts_with_bom (p ++ String "`" rest) = false.
Proof.
  intros H. destruct p as [|a [|b [|c r]]]; cbn [append starts_with_bom].
  - reflexivity.
  - destruct (Nat.eqb (byte a) 239); reflexivity.
  - destruct (Nat.eqb (byte a) 239); [|reflexivity]. destruct (Nat.eqb (byte b) 187); reflexivity.
  - cbn [has_bom] in H. apply orb_false_iff in H as [H _]. exact H.
Qed.
Lemma scan_raw_verbatim : forall p rest, has_backtick p = false -> has_bom p = false -> scan_raw (p ++ String "`" rest) = Some (p, rest).
Proof.
  induction p as [|c p IH]; intros rest H Hb; [reflexivity|].
  pose proof (no_bom_before_backtick (String c p) rest Hb) as Hn.
  cbn [has_backtick] in H. apply orb_false_iff in H as [Hc Hp].
  cbn [has_bom] in Hb. apply orb_false_iff in Hb as [_ Hb].
  change ((String c p ++ String "`" rest)%string) with (String c (p ++ String "`" rest)) in *.
  cbn [scan_raw]. rewrite Hn, Hc. now rewrite (IH rest Hp Hb).
Qed.

(* every regular expression, with or without backticks, quotes, backslashes, newlines or byte-order marks, is read back by the
   engine as exactly that text, and the code after the literal is untouched *)
Theorem pattern_literal_verbatim : forall p rest,
  scan_string_term (S (String.length p)) (pattern_literal p ++ rest) = Some (p, rest).
Proof.
  intros p rest. unfold pattern_literal. destruct (has_backtick p || has_bom p) eqn:E.
  - assert (H : (String """" (escape p ++ """") ++ rest)%string = String """" (escape p ++ String """" rest)).
    { simpl. f_equal. rewrite sappend_assoc. reflexivity. }
    rewrite H. unfold scan_string_term. change (Ascii.eqb """" "`") with false. cbv iota. rewrite Ascii.eqb_refl.
    apply scan_escape. lia.
  - apply orb_false_iff in E as [E1 E2].
    assert (H : (String "`" (p ++ "`") ++ rest)%string = String "`" (p ++ String "`" rest)).
    { simpl. f_equal. rewrite sappend_assoc. reflexivity. }
    rewrite H. unfold scan_string_term. rewrite Ascii.eqb_refl. now apply scan_raw_verbatim.
Qed.
(* before the repair a pattern with a backtick ended its own literal early *)
Lemma pattern_refuted_before_fix : scan_raw ("x`y" ++ String "`" ",v)") = Some ("x", "y`,v)").
Proof. reflexivity. Qed.

(* the literal written for a value list is always a set, never the empty object *)
Theorem string_set_is_a_set : forall l, classify_collection (string_set_literal l) = KSet.
Proof.
  intros [|x r]; [reflexivity|]. unfold string_set_literal. destruct r; reflexivity.
Qed.
Lemma empty_braces_are_an_object : classify_collection "{ }" = KObject /\ classify_collection "{}" = KObject.
Proof. split; reflexivity. Qed.

(* every list of values - whatever the texts contain - is read back element by element as exactly those texts, and the
   code after the last element is untouched *)
Lemma scan_elements_step fuel n r :
  scan_elements fuel (S (S n)) (String """" r) =
  match scan_literal fuel r with
  | Some (x, String "," rest') => match scan_elements fuel (S n) rest' with Some (l, z) => Some (x :: l, z) | None => None end
  | _ => None
  end.
Proof. cbn [scan_elements]. destruct (scan_literal fuel r) as [[x rest]|]; [|reflexivity]. destruct rest as [|c rest']; [reflexivity|]. destruct c as [[] [] [] [] [] [] [] []]; reflexivity. Qed.

Theorem list_values_verbatim : forall l fuel rest, l <> [] -> max_length l < fuel ->
  scan_elements fuel (List.length l) (join_quoted l ++ rest) = Some (l, rest).
Proof.
  induction l as [|x r IH]; intros fuel rest Hne Hf; [congruence|].
  destruct r as [|y r'].
  - cbn [join_quoted List.length scan_elements]. cbn [append].
    replace ((escape x ++ """") ++ rest) with (escape x ++ String """" rest) by (rewrite sappend_assoc; reflexivity).
    rewrite scan_escape by (simpl in Hf; lia). reflexivity.
  - assert (E : join_quoted (x :: y :: r') = String """" (escape x ++ """") ++ "," ++ join_quoted (y :: r')) by reflexivity.
    rewrite E. change (List.length (x :: y :: r')) with (S (S (List.length r'))).
    assert (H : ((String """" (escape x ++ """") ++ "," ++ join_quoted (y :: r')) ++ rest)%string
              = String """" (escape x ++ String """" (String "," (join_quoted (y :: r') ++ rest)))).
    { simpl. f_equal. rewrite !sappend_assoc. reflexivity. }
    rewrite H. rewrite scan_elements_step. rewrite scan_escape by (simpl in Hf; lia).
    assert (IH' := IH fuel rest (fun Hn => ltac:(discriminate Hn))).
    change (List.length (y :: r')) with (S (List.length r')) in IH'.
    rewrite IH' by (simpl in *; lia). reflexivity.
Qed.

(* before the repair: the escaper copied a byte-order mark, which the engine's scanner refuses inside a literal *)
Definition bytewise_escape : string -> string :=
  fix go (s : string) : string := match s with EmptyString => EmptyString | String c r => escape_char c ++ go r end.
Lemma refuted_before_fix_bom :
  scan_literal 10 (bytewise_escape (String (chr 239) (String (chr 187) (String (chr 191) "x"))) ++ """") = None
  /\ scan_literal 10 (escape (String (chr 239) (String (chr 187) (String (chr 191) "x"))) ++ """")
     = Some (String (chr 239) (String (chr 187) (String (chr 191) "x")), "").
Proof. vm_compute. split; reflexivity. Qed.
