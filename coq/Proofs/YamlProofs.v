(* C15: rewritings that keep the meaning of a profile keep its verdicts. *)
From Coq Require Import Permutation.
From ACV Require Import Base.Strs Model.Graph Model.PathGrammar Model.PathSem Model.Dnf Model.Rules Model.Report Model.Engine Model.Yaml.
From ACV Require Import Proofs.PathSemProofs Proofs.DnfProofs Proofs.RulesProofs Proofs.GraphEquivProofs Proofs.EngineProofs.
Local Open Scope list_scope.

(* ------------------------------------------------------------------ mapping keys in any order *)
Lemma assoc_perm {V} k (l l' : list (string * V)) : NoDup (map fst l) -> Permutation l l' -> assoc k l = assoc k l'.
Proof.
  intros Hnd Hp. induction Hp as [|[k1 v1] l l' Hp IH|[k1 v1] [k2 v2] l|l l' l'' H1 IH1 H2 IH2]; simpl in *.
  - reflexivity.
  - inversion Hnd; subst. destruct (String.eqb k1 k); [reflexivity|auto].
  - inversion Hnd as [|? ? Hn1 Hnd']; subst. destruct (String.eqb k2 k) eqn:E2, (String.eqb k1 k) eqn:E1; try reflexivity.
    apply String.eqb_eq in E1, E2. subst. exfalso. apply Hn1. simpl. now left.
  - rewrite IH1 by assumption. apply IH2. eapply Permutation_NoDup; [apply Permutation_map; exact H1|assumption].
Qed.
(* Get does not depend on the order in which the keys of a mapping are written *)
Theorem get_perm : forall k l l', NoDup (map fst l) -> Permutation l l' -> yget k (YMap l) = yget k (YMap l').
Proof. intros. simpl. now apply assoc_perm. Qed.
Theorem keys_perm : forall l l', Permutation l l' -> Permutation (ykeys (YMap l)) (ykeys (YMap l')).
Proof. intros. simpl. now apply Permutation_map. Qed.

(* ------------------------------------------------------------------ operands of and / or in any order, at any depth *)
Inductive rewrite : form -> form -> Prop :=
| rw_and_perm l l' : Permutation l l' -> rewrite (FAnd l) (FAnd l')
| rw_or_perm l l' : Permutation l l' -> rewrite (FOr l) (FOr l')
| rw_in_and l1 f f' l2 : rewrite f f' -> rewrite (FAnd (l1 ++ f :: l2)) (FAnd (l1 ++ f' :: l2))
| rw_in_or l1 f f' l2 : rewrite f f' -> rewrite (FOr (l1 ++ f :: l2)) (FOr (l1 ++ f' :: l2))
| rw_in_not f f' : rewrite f f' -> rewrite (FNot f) (FNot f')
| rw_in_if i i' t e : rewrite i i' -> rewrite (FIf i t e) (FIf i' t e)
| rw_in_then i t t' e : rewrite t t' -> rewrite (FIf i t e) (FIf i t' e)
| rw_in_else i t e e' : rewrite e e' -> rewrite (FIf i t (Some e)) (FIf i t (Some e'))
| rw_in_nested q p f f' : rewrite f f' -> rewrite (FNested q p f) (FNested q p f')
| rw_refl f : rewrite f f
| rw_trans f f' f'' : rewrite f f' -> rewrite f' f'' -> rewrite f f''.

Lemma forallb_perm {X} (h : X -> bool) l l' : Permutation l l' -> forallb h l = forallb h l'.
Proof. induction 1; simpl; try congruence. now destruct (h x), (h y). Qed.
Lemma existsb_perm {X} (h : X -> bool) l l' : Permutation l l' -> existsb h l = existsb h l'.
Proof. induction 1; simpl; try congruence. now destruct (h x), (h y). Qed.

Theorem rewrite_same_verdict : forall f f', rewrite f f' -> forall g pol n, lsat g pol f n = lsat g pol f' n.
Proof.
  induction 1; intros g pol n; simpl.
  - destruct pol; [now apply forallb_perm|now apply existsb_perm].
  - destruct pol; [now apply existsb_perm|now apply forallb_perm].
  - destruct pol; rewrite ?forallb_app, ?existsb_app; simpl; now rewrite IHrewrite.
  - destruct pol; rewrite ?forallb_app, ?existsb_app; simpl; now rewrite IHrewrite.
  - apply IHrewrite.
  - destruct e; rewrite !IHrewrite; reflexivity.
  - destruct e; rewrite !IHrewrite; reflexivity.
  - rewrite !IHrewrite. reflexivity.
  - rewrite (filter_ext_in' _ (fun c => negb (lsat g true f' c))) by (intros; now rewrite IHrewrite). reflexivity.
  - reflexivity.
  - now rewrite IHrewrite1.
Qed.
Lemma rewrite_wf : forall f f', rewrite f f' -> wf_form f = wf_form f'.
Proof.
  induction 1; simpl; try congruence;
    try (rewrite (Permutation_length H); f_equal; now apply forallb_perm);
    try (rewrite !app_length, !forallb_app; simpl; now rewrite IHrewrite);
    try (now rewrite IHrewrite).
Qed.
Theorem rewrite_same_results : forall f f', rewrite f f' -> wf_form f = true -> forall g cls n,
  In n (validation_results g cls f) <-> In n (validation_results g cls f').
Proof.
  intros f f' H Hw g cls n. assert (Hw' : wf_form f' = true) by (now rewrite <- (rewrite_wf f f' H)).
  rewrite !results_exactly by assumption. now rewrite (rewrite_same_verdict f f' H).
Qed.

(* ------------------------------------------------------------------ names of a level list / validations in any order *)
Lemma find_def_perm p p' name : NoDup (map v_name (p_defs p)) -> Permutation (p_defs p) (p_defs p') ->
  find_def p name = find_def p' name.
Proof.
  unfold find_def. intros Hnd Hp. generalize dependent Hnd. induction Hp as [|d l l' Hp IH|d1 d2 l|l l' l'' H1 IH1 H2 IH2]; simpl; intros Hnd.
  - reflexivity.
  - inversion Hnd; subst. destruct (String.eqb (v_name d) name); [reflexivity|auto].
  - inversion Hnd as [|? ? Hn1 Hnd']; subst. destruct (String.eqb (v_name d2) name) eqn:E2, (String.eqb (v_name d1) name) eqn:E1; try reflexivity.
    apply String.eqb_eq in E1, E2. exfalso. apply Hn1. simpl. left. congruence.
  - rewrite IH1 by assumption. apply IH2. eapply Permutation_NoDup; [apply Permutation_map; exact H1|assumption].
Qed.

Theorem level_lists_in_any_order : forall g p p' l r,
  p_name p = p_name p' -> NoDup (map v_name (p_defs p)) -> Permutation (p_defs p) (p_defs p') -> Permutation (p_listed p) (p_listed p') ->
  (In r (level_results g p l) <-> In r (level_results g p' l)).
Proof.
  intros g p p' l r _ Hnd Hd Hl. unfold level_results.
  assert (Heq : forall a b, result_eqb a b = true <-> (r_name a = r_name b /\ r_focus a = r_focus b)).
  { intros a b. unfold result_eqb. rewrite andb_true_iff, !String.eqb_eq. tauto. }
  assert (HmemG : forall L z, In z (dedup result_eqb L) -> In z L).
  { induction L as [|x L IH]; simpl; [tauto|]. intros z. destruct (existsb (result_eqb x) L); simpl; intros H; [right; auto|]. destruct H; auto. }
  assert (Hmem : forall L, In r (dedup result_eqb L) -> In r L) by (intros; now apply HmemG).
  assert (Hmem'' : forall L x, In x L -> exists r', In r' (dedup result_eqb L) /\ r_name r' = r_name x /\ r_focus r' = r_focus x).
  { induction L as [|y L IH]; simpl; [tauto|]. intros x [->|Hin].
    - destruct (existsb (result_eqb x) L) eqn:E.
      + apply existsb_exists in E as [z [Hz Ez]]. apply Heq in Ez as [E1 E2]. destruct (IH z Hz) as [r' [H1 [H2 H3]]]. exists r'. repeat split; congruence.
      + exists x. simpl. auto.
    - destruct (IH x Hin) as [r' [H1 H2]]. exists r'. split; [|assumption]. destruct (existsb (result_eqb y) L); simpl; auto. }
  assert (Hmem' : forall L, In r L -> exists r', In r' (dedup result_eqb L) /\ r_name r' = r_name r /\ r_focus r' = r_focus r) by (intros; now apply Hmem'').
  (* both sides are determined by membership in the un-deduplicated lists, which are permutations of each other
     up to find_def; results with equal name and focus are equal records here *)
  assert (Hflat : forall q q', Permutation (p_listed q) (p_listed q') -> (forall nm, find_def q nm = find_def q' nm) ->
            forall x, In x (flat_map (fun ln => if level_eqb l (fst ln) then match find_def q (snd ln) with
                                | Some d => map (fun n => {| r_name := v_name d; r_focus := nid n; r_msg := v_msg d; r_tree := unit_tree |}) (validation_results g (v_class d) (v_form d))
                                | None => [] end else []) (p_listed q)) ->
                      In x (flat_map (fun ln => if level_eqb l (fst ln) then match find_def q' (snd ln) with
                                | Some d => map (fun n => {| r_name := v_name d; r_focus := nid n; r_msg := v_msg d; r_tree := unit_tree |}) (validation_results g (v_class d) (v_form d))
                                | None => [] end else []) (p_listed q'))).
  { intros q q' Hpl Hfd x Hin. apply in_flat_map in Hin as [ln [Hln Hx]]. apply in_flat_map. exists ln. split; [eapply Permutation_in; eauto|].
    now rewrite <- Hfd. }
  set (F := fun q : profile => flat_map (fun ln => if level_eqb l (fst ln) then match find_def q (snd ln) with
                                | Some d => map (fun n => {| r_name := v_name d; r_focus := nid n; r_msg := v_msg d; r_tree := unit_tree |}) (validation_results g (v_class d) (v_form d))
                                | None => [] end else []) (p_listed q)).
  assert (Hfd : forall nm, find_def p nm = find_def p' nm) by (intros; now apply find_def_perm).
  assert (Hnd' : NoDup (map v_name (p_defs p'))) by (eapply Permutation_NoDup; [apply Permutation_map; exact Hd|assumption]).
  (* a result of these lists is determined by its name and focus (message and tree come from the definition found by name) *)
  assert (Hdet : forall q, (forall x y, In x (F q) -> In y (F q) -> r_name x = r_name y -> r_focus x = r_focus y -> x = y)).
  { intros q x y Hx Hy En Ef. unfold F in *. apply in_flat_map in Hx as [[lx nx] [_ Hx]]. apply in_flat_map in Hy as [[ly ny] [_ Hy]]. simpl in *.
    destruct (level_eqb l lx); [|destruct Hx]. destruct (level_eqb l ly); [|destruct Hy].
    destruct (find_def q nx) as [dx|] eqn:Ex; [|destruct Hx]. destruct (find_def q ny) as [dy|] eqn:Ey; [|destruct Hy].
    apply in_map_iff in Hx as [mx [<- _]]. apply in_map_iff in Hy as [my [<- _]]. simpl in *.
    pose proof Ex as Ex'. pose proof Ey as Ey'.
    unfold find_def in Ex, Ey. apply find_some in Ex as [_ Ex]. apply find_some in Ey as [_ Ey]. apply String.eqb_eq in Ex, Ey.
    assert (nx = ny) by congruence. subst ny.
    assert (dx = dy) by congruence.
    subst dy. now rewrite Ef. }
  split; intros Hin.
  - apply Hmem in Hin. apply (Hflat p p' Hl Hfd) in Hin. destruct (Hmem' _ Hin) as [r' [H1 [H2 H3]]].
    assert (r' = r); [|now subst]. apply (Hdet p'); auto.
  - apply Hmem in Hin. apply (Hflat p' p (Permutation_sym Hl) (fun nm => eq_sym (Hfd nm))) in Hin. destruct (Hmem' _ Hin) as [r' [H1 [H2 H3]]].
    assert (r' = r); [|now subst]. apply (Hdet p); auto.
Qed.

(* ------------------------------------------------------------------ prefixes *)
Lemma split_dot_new' new l : no_dot new = true -> split_dot (new ++ String "." l) = Some (new, l).
Proof.
  induction new as [|c new IH]; simpl; intros H; [reflexivity|]. apply andb_prop in H as [Hc Hn].
  apply negb_true_iff in Hc. rewrite Hc. now rewrite IH.
Qed.
Lemma split_dot_new new l : no_dot new = true -> split_dot (new ++ "." ++ l) = Some (new, l).
Proof. exact (split_dot_new' new l). Qed.
Lemma assoc_rename old new (t : list (string * string)) k :
  ~ In new (map fst t) -> k <> new -> assoc k (rename_in_table old new t) = if String.eqb k old then None else assoc k t.
Proof.
  intros Hfresh Hk. induction t as [|[k' v] t IH]; simpl in *.
  - now destruct (String.eqb k old).
  - destruct (String.eqb k' old) eqn:E.
    + apply String.eqb_eq in E. subst k'. destruct (String.eqb new k) eqn:E2; [apply String.eqb_eq in E2; congruence|].
      rewrite IH by tauto. rewrite (String.eqb_sym old k). now destruct (String.eqb k old).
    + rewrite IH by tauto. destruct (String.eqb k' k) eqn:E3; [|reflexivity].
      apply String.eqb_eq in E3. subst k'. now rewrite E.
Qed.
Lemma assoc_rename_new old new (t : list (string * string)) : ~ In new (map fst t) ->
  assoc new (rename_in_table old new t) = assoc old t.
Proof.
  intros Hfresh. induction t as [|[k' v] t IH]; simpl in *; [reflexivity|].
  destruct (String.eqb k' old) eqn:E.
  - now rewrite String.eqb_refl.
  - destruct (String.eqb k' new) eqn:E2; [apply String.eqb_eq in E2; subst; tauto|]. apply IH. tauto.
Qed.

(* consistently renaming a prefix (to a name used nowhere) keeps every expanded IRI *)
Theorem expand_rename : forall defaults profile old new iri,
  no_dot new = true -> ~ In new (map fst (profile ++ defaults)) -> In old (map fst profile) ->
  (forall p l, split_dot iri = Some (p, l) -> p <> new) ->
  expand_compact (context defaults (rename_in_table old new profile)) (rename_in_iri old new iri)
  = expand_compact (context defaults profile) iri.
Proof.
  intros defaults profile old new iri Hnd Hfresh Hold Hnot. unfold expand_compact, rename_in_iri, context.
  assert (Hfp : ~ In new (map fst profile)) by (intros H; apply Hfresh; rewrite map_app; apply in_or_app; now left).
  assert (Hfd : ~ In new (map fst defaults)) by (intros H; apply Hfresh; rewrite map_app; apply in_or_app; now right).
  assert (Happ : forall k (a b : list (string * string)), assoc k (a ++ b) = match assoc k a with Some v => Some v | None => assoc k b end).
  { intros k a b. induction a as [|[k' v] a IH]; simpl; [reflexivity|]. destruct (String.eqb k' k); auto. }
  destruct (split_dot iri) as [[p l]|] eqn:Es; [|now rewrite Es].
  destruct (String.eqb p old) eqn:Ep.
  - apply String.eqb_eq in Ep. subst p. rewrite (split_dot_new new l Hnd). rewrite !Happ.
    rewrite (assoc_rename_new old new profile Hfp).
    destruct (assoc old profile) as [ns|] eqn:Ea; [reflexivity|].
    exfalso. clear -Hold Ea. induction profile as [|[k v] t IH]; simpl in *; [tauto|].
    destruct (String.eqb k old) eqn:E; [discriminate|]. destruct Hold as [->|H]; [now rewrite String.eqb_refl in E|auto].
  - rewrite Es. rewrite !Happ. rewrite (assoc_rename old new profile p Hfp (Hnot p l eq_refl)). now rewrite Ep.
Qed.

(* another prefix bound to the same namespace expands to the same IRI *)
Theorem expand_alias : forall ctx p q ns l, no_dot p = true -> no_dot q = true ->
  assoc p ctx = Some ns -> assoc q ctx = Some ns ->
  expand_compact ctx (p ++ "." ++ l) = expand_compact ctx (q ++ "." ++ l).
Proof. intros. unfold expand_compact. rewrite !split_dot_new by assumption. now rewrite H1, H2. Qed.
