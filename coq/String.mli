open Datatypes

val append : char list -> char list -> char list

val length : char list -> nat
