
val negb : bool -> bool

type nat =
| O
| S of nat


